#!/usr/bin/env python3
"""Markdown index of the rules every check applied in its last run (from evidence/*.json): rule id, instances decided, what it demands."""
import json, glob
for f in sorted(glob.glob('/verif/evidence/C*.json')):
    e = json.load(open(f))
    print('**%s** (%s tier: %d obligations)\n' % (e['property_id'], e['tier'], e['coverage']['obligations']))
    for rule, r in sorted(e['coverage']['by_rule'].items()):
        obs = r.get('obligations', [])
        print('* `%s` ×%d — %s' % (rule, r['instances'], '; '.join(obs[:3]) + (' …' if len(obs) > 3 else '')))
    print()
