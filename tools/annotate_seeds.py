#!/usr/bin/env python3
"""Copy the verifier's own confirmation (confirm.json, written by tools/confirm_seed.py) into each seed's meta.json."""
import glob, json, os
ROUND = {'a': 1, 'b': 1, 'c': 2, 'd': 2, 'e': 3, 'f': 3, 'g': 4, 'h': 4, 'i': 5, 'j': 5}
NOTES = {
    'C15/f': "independence caveat: this agent's report quotes /verif's commit log (it looked at it against its instructions), so the change was "
             "written with knowledge of L-CLONE's first version (impls reached by protocol flows only); kept because it is a valid break and led to the clone root",
}
for d in sorted(glob.glob('/verif/seeded/C*/[a-z]')):
    mp = os.path.join(d, 'meta.json')
    cp = os.path.join(d, 'confirm.json')
    if not os.path.exists(mp):
        continue
    m = json.load(open(mp))
    sid = '/'.join(d.split('/')[-2:])
    m['breaks_property'] = m.get('property', sid.split('/')[0])
    m['round'] = ROUND[sid.split('/')[1]]
    if os.path.exists(cp):
        c = json.load(open(cp))
        m['confirmed_by_verifier'] = {'base_commit': c.get('base'), 'confirmed': c.get('confirmed'),
                                      'steps': [[s['step'], s['pass']] for s in c.get('steps', [])]}
    if os.path.exists(os.path.join(d, 'patch.orig.diff')):
        m['ported'] = 'patch.diff is the agent\'s change re-applied by hand on a later /repo HEAD (a fix: commit touched the same hunk); patch.orig.diff is the agent\'s file'
    if sid in NOTES:
        m['note'] = NOTES[sid]
    json.dump(m, open(mp, 'w'), indent=1)
print('annotated')
