#!/usr/bin/env python3
"""Markdown table of the seeded changes and which checks report them (from seeded/*/*/checks.json)."""
import json, os, glob, re
rows = []
for d in sorted(glob.glob('/verif/seeded/C*/[a-z]')):
    sid = '/'.join(d.split('/')[-2:])
    meta = json.load(open(d + '/meta.json')) if os.path.exists(d + '/meta.json') else {}
    chk = json.load(open(d + '/checks.json')) if os.path.exists(d + '/checks.json') else {}
    conf = json.load(open(d + '/confirm.json')) if os.path.exists(d + '/confirm.json') else {}
    caught = [p for p, v in chk.items() if v == 'CAUGHT']
    what = re.sub(r'\s+', ' ', meta.get('what', '')).strip()
    what = (what[:230] + '…') if len(what) > 230 else what
    needs = re.sub(r'\s+', ' ', meta.get('needs', '')).strip()
    needs = (needs[:150] + '…') if len(needs) > 150 else needs
    own = sid.split('/')[0]
    rows.append('| %s | %s | %s | %s | %s |' % (sid, what.replace('|', '/'), needs.replace('|', '/'), 'yes' if conf.get('confirmed') else 'NO',
                                               ', '.join(('**%s**' % c) if c == own else c for c in caught) or '**none**'))
print('| seed | change | needs to manifest | confirmed | reported by |')
print('|---|---|---|---|---|')
print('\n'.join(rows))
