#!/usr/bin/env python3
"""Copy finished round-6 refactoring outputs /tmp/rf6/<n>/out/<k>/ into /verif/refactorings/R2<n>-<k>/ (patch.diff, what.txt). usage: import_refac6.py <n>..."""
import os, shutil, sys
for n in sys.argv[1:]:
    src = '/tmp/rf6/%s/out' % n
    for k in sorted(os.listdir(src)):
        d = os.path.join(src, k)
        if not all(os.path.exists(os.path.join(d, f)) for f in ('patch.diff', 'what.txt')):
            sys.stderr.write('incomplete %s\n' % d); continue
        dst = '/verif/refactorings/R2%s-%s' % (n, k)
        os.makedirs(dst, exist_ok=True)
        for f in ('patch.diff', 'what.txt'):
            shutil.copy(os.path.join(d, f), os.path.join(dst, f))
        print(dst)
