#!/usr/bin/env python3
"""Confirm an independently produced breaking change in a scratch worktree of /repo's HEAD:
  usage: confirm_seed.py <seed-dir> [<seed-dir> ...]      (each holds patch.diff, demo.rs, meta.json)
For each: (1) demo passes on the unmodified tree, (2) with the patch the library builds and the whole existing suite
passes, (3) the demo fails with the patch.  Writes <seed-dir>/confirm.json.  The worktree and target dir are removed at the end."""
import json, os, re, shutil, subprocess, sys, time
WT = os.environ.get('CONFIRM_WT', '/tmp/cw')
TGT = WT + '-target'

def sh(cmd, cwd=WT, timeout=3000):
    env = dict(os.environ, CARGO_TARGET_DIR=TGT, CARGO_NET_OFFLINE='true')
    r = subprocess.run(cmd, shell=True, cwd=cwd, env=env, capture_output=True, text=True, timeout=timeout)
    return r.returncode, (r.stdout + r.stderr)

def main():
    seeds = sys.argv[1:]
    if os.path.exists(WT):
        sh('git -C /repo worktree remove --force %s' % WT, cwd='/')
    rc, out = sh('git -C /repo worktree add --detach %s HEAD' % WT, cwd='/')
    assert rc == 0, out
    try:
        for sd in seeds:
            res = {'seed': sd, 'base': subprocess.check_output('git -C /repo rev-parse --short HEAD', shell=True, text=True).strip(), 'steps': []}
            try:
                meta = json.load(open(os.path.join(sd, 'meta.json')))
            except Exception as e:
                meta = {}
            name = 'demo_' + re.sub(r'[^A-Za-z0-9]', '_', os.path.basename(os.path.dirname(sd.rstrip('/'))) + '_' + os.path.basename(sd.rstrip('/')))
            feats = ''
            m = re.search(r'--features[ =]("[^"]+"|\S+)', meta.get('demo_cmd', ''))
            if m:
                feats = '--features ' + m.group(1)
            if '--all-features' in meta.get('demo_cmd', ''):
                feats = '--all-features'
            if '--release' in meta.get('demo_cmd', ''):
                feats += ' --release'
            sh('git checkout -- . && git clean -fdq -e target', WT)
            os.makedirs(os.path.join(WT, 'tests'), exist_ok=True)
            shutil.copy(os.path.join(sd, 'demo.rs'), os.path.join(WT, 'tests', name + '.rs'))
            t0 = time.time()
            rc, out = sh('cargo test --offline %s --test %s 2>&1 | tail -30' % (feats, name))
            ok_base = 'test result: ok' in out and 'FAILED' not in out
            res['steps'].append({'step': 'demo on unmodified tree', 'pass': ok_base, 'tail': out[-1500:]})
            rc, out = sh('git apply %s' % os.path.join(sd, 'patch.diff'))
            if rc != 0:
                rc, out = sh('patch -p1 -F3 --no-backup-if-mismatch < %s' % os.path.join(sd, 'patch.diff'))
            res['steps'].append({'step': 'patch applies to HEAD', 'pass': rc == 0, 'tail': out[-800:]})
            if rc == 0:
                rc, out = sh('cargo build --offline %s 2>&1 | tail -5' % feats)
                res['steps'].append({'step': 'builds', 'pass': 'Finished' in out, 'tail': out[-600:]})
                rc, out = sh('cargo test --offline --lib 2>&1 | grep -E "^test result|FAILED|panicked" | head')
                m = re.search(r'test result: ok\. (\d+) passed; 0 failed', out)
                res['steps'].append({'step': 'existing unit tests pass (91)', 'pass': bool(m) and int(m.group(1)) == 91, 'tail': out[-600:]})
                rc, out = sh('cargo test --offline --doc 2>&1 | grep -E "^test result|FAILED" | head')
                res['steps'].append({'step': 'existing doc tests pass', 'pass': 'test result: ok' in out and 'FAILED' not in out, 'tail': out[-400:]})
                rc, out = sh('cargo test --offline %s --test %s 2>&1 | tail -30' % (feats, name))
                res['steps'].append({'step': 'demo fails with the patch', 'pass': ('FAILED' in out or 'test result: FAILED' in out or 'panicked' in out) and 'could not compile' not in out, 'tail': out[-1500:]})
            res['confirmed'] = all(s['pass'] for s in res['steps']) and len(res['steps']) == 6
            res['wall_s'] = round(time.time() - t0, 1)
            json.dump(res, open(os.path.join(sd, 'confirm.json'), 'w'), indent=1)
            print(sd, 'CONFIRMED' if res['confirmed'] else 'NOT-CONFIRMED', [(s['step'], s['pass']) for s in res['steps'] if not s['pass']], flush=True)
    finally:
        sh('git -C /repo worktree remove --force %s' % WT, cwd='/')
        shutil.rmtree(TGT, ignore_errors=True)

if __name__ == '__main__':
    main()
