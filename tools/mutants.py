#!/usr/bin/env python3
"""Self-made sanity mutants (not the independent seeded changes under /verif/seeded).
usage: tools/mutants.py [mutant-id ...]   -- evaluates each off-tree through tools/seeds.py (scratch worktree; /repo untouched)."""
import subprocess, sys, os, json
REPO = '/repo'
M = []
def mut(mid, props, file, old, new):
    M.append((mid, props, file, old, new))

mut('m03a-drop-verify-result', ['C03'], 'src/key_exchange/tripledh.rs',
    '''        client_mac
            .verify(&ke3_message.mac)
            .map_err(|_| ProtocolError::InvalidLoginError)?;

        Ok(ke2_state.session_key.clone())''',
    '''        let _ = client_mac.verify(&ke3_message.mac);

        Ok(ke2_state.session_key.clone())''')
mut('m04a-drop-server-mac-verify', ['C02', 'C04'], 'src/key_exchange/tripledh.rs',
    '''        server_mac
            .verify(&ke2_message.mac)
            .map_err(|_| ProtocolError::InvalidLoginError)?;
''', '''        let _ = server_mac.verify(&ke2_message.mac);
''')
mut('m02a-drop-envelope-mac', ['C02', 'C06'], 'src/envelope.rs',
    '''        hmac.verify(&self.hmac)
            .map_err(|_| InternalError::SealOpenHmacError)?;
''', '''        let _ = hmac.verify(&self.hmac);
''')
mut('m02b-truncate-password', ['C02'], 'src/opaque.rs',
    '''        let blind_result = blind::<CS, _>(rng, password)?;
        let (ke1_state, ke1_message)''', '''        let blind_result = blind::<CS, _>(rng, &password[..password.len().min(64)])?;
        let (ke1_state, ke1_message)''')
mut('m02c-wrong-error', ['C02'], 'src/key_exchange/tripledh.rs',
    '''        server_mac
            .verify(&ke2_message.mac)
            .map_err(|_| ProtocolError::InvalidLoginError)?;''', '''        server_mac
            .verify(&ke2_message.mac)
            .map_err(|_| ProtocolError::SerializationError)?;''')
mut('m15a-ignore-ksf-param', ['C15'], 'src/opaque.rs',
    '''    let hardened_output = if let Some(ksf) = ksf {
        ksf.hash(oprf_output.clone())
    } else {''', '''    let hardened_output = if let Some(_ksf) = ksf {
        CS::Ksf::default().hash(oprf_output.clone())
    } else {''')
mut('m05a-one-byte-prefix-ctx', ['C05', 'C09'], 'src/key_exchange/tripledh.rs',
    '''            .chain_iter(Input::<U2>::from(context)?.iter())''', '''            .chain_iter(Input::<U1>::from(context)?.iter())''')
mut('m10a-atleast-helper', ['C10'], 'src/errors.rs',
    '''        if slice.len() != expected_len {''', '''        if slice.len() < expected_len {''')
mut('m11a-ristretto-identity', ['C11'], 'src/key_exchange/group/ristretto255.rs',
    '''            .filter(|point| point != &RistrettoPoint::identity())
''', '')
mut('m17a-constant-blind', ['C17', 'C14', 'C01'], 'src/opaque.rs',
    '''    #[cfg(not(test))]
    let result = voprf::OprfClient::blind(password, rng)?;''', '''    #[cfg(not(test))]
    let result = {
        let _ = &rng;
        let mut bytes = GenericArray::<_, <OprfGroup<CS> as Group>::ScalarLen>::default();
        bytes[0] = 1;
        let blind = <OprfGroup<CS> as Group>::deserialize_scalar(&bytes).map_err(|_| voprf::Error::Deserialization)?;
        voprf::OprfClient::deterministic_blind_unchecked(password, blind)?
    };''')
mut('m08a-early-return-none', ['C08'], 'src/opaque.rs',
    '''        let record = match password_file {
            Some(x) => x,
            None => ServerRegistration::dummy(rng, server_setup),
        };''', '''        let has_file = password_file.is_some();
        let record = match password_file {
            Some(x) => x,
            None => ServerRegistration::dummy(rng, server_setup),
        };
        let credential_identifier = if has_file { credential_identifier } else { &[] };''')
mut('m06a-mask-stored-pk', ['C06'], 'src/opaque.rs',
    '''        let server_s_pk = server_s_sk.public_key()?;
''', '''        let server_s_pk = server_setup.fake_keypair.public().clone();
        let _ = server_s_sk.public_key()?;
''')
mut('m18a-unwrap-remote', ['C18', 'C12'], 'src/opaque.rs',
    '''        let server_s_pk = server_s_sk.public_key()?;
''', '''        let server_s_pk = server_s_sk.public_key().ok().unwrap();
''')
mut('m16a-export-key-in-masking-key', ['C16'], 'src/opaque.rs',
    '''                masking_key,
                client_s_pk: result.1,''', '''                masking_key: result.2.clone(),
                client_s_pk: result.1,''')
mut('m07a-nonce-from-request', ['C07', 'C17'], 'src/key_exchange/tripledh.rs',
    '''        let server_nonce = generate_nonce::<R>(rng);
''', '''        let server_nonce = ke1_message.client_nonce;
''')
mut('m13a-drop-field-consistently', ['C13', 'C10'], 'src/key_exchange/tripledh.rs',
    '''        self.client_e_sk.serialize().concat(self.client_nonce)
''', '''        self.client_e_sk.serialize().concat(GenericArray::default())
''')
mut('m12a-index-before-check', ['C12'], 'src/messages.rs',
    '''        let checked_slice = check_slice_size_atleast(input, elem_len, "login_first_message_bytes")?;
''', '''        let checked_slice = input;
''')
mut('m14a-oprf-key-ignores-credid', ['C14', 'C05', 'C08'], 'src/opaque.rs',
    '''            hkdf.expand_multi_info(&[credential_identifier, STR_OPRF_KEY], &mut ikm)''',
    '''            hkdf.expand_multi_info(&[&credential_identifier[..0], STR_OPRF_KEY], &mut ikm)''')
# symmetric (client and server share serialize_without_ke): honest runs still agree, so C01 must stay silent; C04/C07/C09 must fire
mut('m04b-transcript-omits-masking-nonce', ['C04', 'C07', 'C09'], 'src/messages.rs',
    '''        [beta.as_slice(), masking_nonce.as_slice()]
            .into_iter()
            .chain(masked_response.iter())''', '''        [beta.as_slice(), &masking_nonce.as_slice()[..0]]
            .into_iter()
            .chain(masked_response.iter())''')

mut('m09h-h2s-swapped-args', ['C09'], 'src/key_exchange/group/elliptic_curve.rs',
    'Self::hash_to_scalar::<ExpandMsgXmd<H>>(input, dst)', 'Self::hash_to_scalar::<ExpandMsgXmd<H>>(dst, input)')
mut('m09i-h2s-truncated-dst', ['C09'], 'src/key_exchange/group/ristretto255.rs',
    '<voprf::Ristretto255 as Group>::hash_to_scalar::<H>(input, dst)\n            .map_err(InternalError::OprfInternalError)',
    '<voprf::Ristretto255 as Group>::hash_to_scalar::<H>(input, &dst[..1])\n            .map_err(InternalError::OprfInternalError)')
mut('m11z-zero-test-against-one', ['C11'], 'src/key_exchange/group/ristretto255.rs',
    '        scalar.ct_eq(&Scalar::ZERO)\n', '        scalar.ct_eq(&Scalar::ONE)\n')

# ---- C19 (structural clauses of the group laws)
mut('m19a-x25519-unclamped-base-mult', ['C19'], 'src/key_exchange/group/curve25519.rs',
    '''        MontgomeryPoint::mul_base_clamped(sk)''', '''        MontgomeryPoint::mul_base(&Scalar::from_bytes_mod_order(sk))''')
mut('m19b-nist-dh-doubles-scalar', ['C19'], 'src/key_exchange/group/elliptic_curve.rs',
    '''        Self::serialize_pk(pk * sk)''', '''        Self::serialize_pk(pk * (sk + sk))''')
mut('m19c-random-pair-mismatch', ['C19'], 'src/keypair.rs',
    '''        let pk = KG::public_key(sk);
        Self {''', '''        let pk = KG::public_key(KG::random_sk(rng));
        Self {''')
mut('m19d-derive-counter-from-one', ['C19', 'C09'], 'src/key_exchange/group/mod.rs',
    '''        for counter in 0_u8..=u8::MAX {''', '''        for counter in 1_u8..=u8::MAX {''')
mut('m19e-ristretto-sk-reversed', ['C19'], 'src/key_exchange/group/ristretto255.rs',
    '''    fn serialize_sk(sk: Self::Sk) -> GenericArray<u8, Self::SkLen> {
        sk.to_bytes().into()''', '''    fn serialize_sk(sk: Self::Sk) -> GenericArray<u8, Self::SkLen> {
        let mut b = sk.to_bytes();
        b.reverse();
        b.into()''')
mut('m19f-wrapper-dh-uses-public-of-self', ['C19'], 'src/keypair.rs',
    '''        Ok(KG::diffie_hellman(pk.0, self.0))''', '''        Ok(KG::diffie_hellman(KG::public_key(self.0), self.0)).map(|x| { let _ = &pk; x })''')
mut('m19g-from-private-key-slice-rederives', ['C19'], 'src/keypair.rs',
    '''        Self::from_private_key(S::deserialize(input)?)''', '''        let kp = Self::from_private_key(S::deserialize(input)?)?;
        let twice = Self::from_private_key(S::deserialize(&kp.pk.serialize()[..<S::Len as generic_array::typenum::Unsigned>::USIZE.min(<KG::PkLen as generic_array::typenum::Unsigned>::USIZE)]).unwrap_or_else(|_| kp.sk.clone()))?;
        Ok(Self { pk: twice.pk, sk: kp.sk })''')
mut('m19h-ristretto-pk-generator-doubled', ['C19'], 'src/key_exchange/group/ristretto255.rs',
    '''    fn public_key(sk: Self::Sk) -> Self::Pk {
        RISTRETTO_BASEPOINT_POINT * sk''', '''    fn public_key(sk: Self::Sk) -> Self::Pk {
        (RISTRETTO_BASEPOINT_POINT + RISTRETTO_BASEPOINT_POINT) * sk''')

def run(cmd, **kw):
    return subprocess.run(cmd, shell=True, capture_output=True, text=True, **kw)

WT = '/tmp/mutants-wt'
OUT = '/tmp/mutants'

def main():
    """each mutant becomes a patch made in a scratch worktree of /repo HEAD; tools/seeds.py evaluates it off-tree (/repo is not touched)"""
    sel = sys.argv[1:]
    run('git -C /repo worktree remove --force %s' % WT)
    r = run('git -C /repo worktree add --detach %s HEAD' % WT)
    assert r.returncode == 0, r.stderr
    try:
        for mid, props, file, old, new in M:
            if sel and not any(mid.startswith(s) for s in sel):
                continue
            p = os.path.join(WT, file)
            src = open(p).read()
            if old not in src:
                print(mid, 'PATTERN-NOT-FOUND'); continue
            d = os.path.join(OUT, mid)
            os.makedirs(d, exist_ok=True)
            open(p, 'w').write(src.replace(old, new, 1))
            diff = run('git -C %s diff -- src' % WT).stdout
            open(p, 'w').write(src)
            open(os.path.join(d, 'patch.diff'), 'w').write(diff)
            env = dict(os.environ, SEED_REPO='/tmp/mutants-repo', SEED_WORK='/tmp/mutants-work')
            r = subprocess.run('python3 /verif/tools/seeds.py %s --props=%s' % (d, ','.join(props)), shell=True, capture_output=True, text=True, env=env)
            row = json.load(open(os.path.join(d, 'checks.json'))) if os.path.exists(os.path.join(d, 'checks.json')) else {}
            print(mid, ' '.join('%s:%s' % (pr, {'CAUGHT': 'caught', '-': 'MISSED'}.get(row.get(pr), row.get(pr))) for pr in props), flush=True)
    finally:
        run('git -C /repo worktree remove --force %s' % WT)

if __name__ == '__main__':
    main()
