#!/usr/bin/env python3
"""Run the registered checks against seeded changes.
usage: tools/seeds.py <seed-dir>... [--props C01,C02]   (seed-dir holds patch.diff; applied to /repo and reverted afterwards)"""
import json, os, subprocess, sys

SCR = os.environ.get('SEED_REPO', '/tmp/seedrepo')
SWORK = os.environ.get('SEED_WORK', '/tmp/seedwork')
SNAP = os.path.join(SWORK, 'snap')      # the checks run from a snapshot of /verif taken at start, so /verif can be edited meanwhile
ENV = dict(os.environ, OPQ_REPO=SCR, OPQ_WORK=SWORK)


def sh(cmd):
    return subprocess.run(cmd, shell=True, capture_output=True, text=True, env=ENV)

def main():
    args = [a for a in sys.argv[1:] if not a.startswith('--')]
    props = None
    for a in sys.argv[1:]:
        if a.startswith('--props'):
            props = a.split('=')[1].split(',')
    man = json.load(open('/verif/MANIFEST.json'))
    allp = [c['property_id'] for c in man['checks']]
    extra = [p for p in (props or []) if p not in allp]
    # patches are evaluated on a scratch worktree of /repo HEAD with its own work directory; /repo itself is never touched
    sh('git -C /repo worktree remove --force %s' % SCR)
    r = sh('git -C /repo worktree add --detach %s HEAD' % SCR)
    assert r.returncode == 0, r.stderr
    os.makedirs(SWORK, exist_ok=True)
    if not os.path.exists(os.path.join(SCR, 'Cargo.lock')) and os.path.exists('/repo/Cargo.lock'):
        # Cargo.lock is not tracked in /repo's git: a fresh worktree lacks it until cargo recreates it; the pinned-dependency check reads it
        sh('cp /repo/Cargo.lock %s/' % SCR)
    r = sh("rsync -a --delete --exclude .work --exclude .git --exclude seeded --exclude refactorings --exclude evidence "
           "--exclude __pycache__ --exclude 'engine/harness/suites/target' --exclude 'engine/fixtures/target' /verif/ %s/" % SNAP)
    assert r.returncode == 0, r.stderr
    for sd in args:
        patch = os.path.join(sd, 'patch.diff')
        r = sh('git -C %s apply %s' % (SCR, patch))
        if r.returncode != 0:
            r = sh('cd %s && patch -p1 -F3 --no-backup-if-mismatch < %s' % (SCR, patch))
        if r.returncode != 0:
            print(sd, 'PATCH-DOES-NOT-APPLY', r.stderr.strip()[:200]); continue
        row = {}
        try:
            from concurrent.futures import ThreadPoolExecutor
            plist = list(props or allp)
            sh('cd %s && python3 engine/py/facts.py' % SNAP)     # one extraction, then the checks share it
            def one(p):
                return p, sh('cd %s && ./check %s' % (SNAP, p))
            with ThreadPoolExecutor(max_workers=9) as ex:
                for p, r in ex.map(one, plist):
                    row[p] = {0: '-', 1: 'CAUGHT', 2: 'ERR'}.get(r.returncode, '?')
                    if r.returncode == 2:
                        row[p] = 'ERR:' + r.stderr.strip()[-200:]
                    if r.returncode == 1:
                        keys = [l.split('replay=')[1].split('/')[-1][:-5] for l in r.stdout.splitlines() if l.startswith('VIOLATION')]
                        row[p + ':keys'] = keys[:6]
                    if r.returncode == 1 and os.environ.get('SEED_VERBOSE'):
                        print(r.stdout[-1500:])
        finally:
            sh('git -C %s checkout -- . && git -C %s clean -fdq -e target' % (SCR, SCR))
        caught = [p for p, v in row.items() if v == 'CAUGHT']
        errs = {p: v for p, v in row.items() if isinstance(v, str) and v.startswith('ERR')}
        print(sd, 'caught by', caught or 'NOTHING', errs or '', flush=True)
        cj = os.path.join(sd, 'checks.json')
        if props and os.path.exists(cj):
            # a run restricted to some properties refreshes only their columns
            old = json.load(open(cj))
            for p in props:
                old.pop(p, None)
                old.pop(p + ':keys', None)
            old.update(row)
            row = old
        json.dump(row, open(cj, 'w'), indent=1)

if __name__ == '__main__':
    try:
        main()
    finally:
        subprocess.run('git -C /repo worktree remove --force %s' % SCR, shell=True, capture_output=True)
