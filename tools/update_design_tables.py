#!/usr/bin/env python3
"""Regenerates the two generated blocks of DESIGN.md: the seed table of 11.5 and the rule index (last section)."""
import subprocess, re
p = '/verif/DESIGN.md'
s = open(p).read()
tbl = subprocess.check_output(['python3', '/verif/tools/seed_table.py'], text=True).strip()
a = s.index('| seed | change | needs to manifest | confirmed | reported by |')
b = s.index('\nNotes.', a)
s = s[:a] + tbl + '\n' + s[b:]
idx = subprocess.check_output(['python3', '/verif/tools/rule_index.py'], text=True).strip()
head = '### 11.14 Rule index (generated from the evidence of the last run)'
if head in s:
    s = s[:s.index(head)].rstrip('\n') + '\n'
s = s.rstrip('\n') + '\n\n' + head + '\n\n' + ('Every rule id that appears in a `VIOLATION` key, with the number of instances decided in the last quick run and the '
     'first obligation texts. `Rxx.P` = L-PROFILE, `Rxx.F` = L-FEATURES, `Rxx.C` = L-CLONE, `Rxx.N` = L-PARAMS, `Rxx.W` = compile-fail witnesses '
     '(thorough tier), `L-EXPLORED` = every summarised API function has a complete exploration with a path.\n\n') + idx + '\n'
open(p, 'w').write(s)
print('updated: %d table rows' % (tbl.count('\n') - 1))
