#!/usr/bin/env python3
"""Regenerates /verif/MANIFEST.json from the table below (kept valid at all times)."""
import json, os
HERE = os.path.dirname(os.path.dirname(os.path.abspath(__file__)))
PROPS = [json.loads(l)['id'] for l in open(os.path.join(HERE, 'properties.jsonl'))]

NOTE_COMMON = ("Trusted: rustc type checking and MIR construction, the fact extractor, the model table of external "
               "functions (DESIGN 3.5), dependency summaries pinned to Cargo.lock versions (DESIGN 3.6); cryptographic "
               "assumptions where the text says 'modulo'. Numerical behaviour of primitives is not decided.")

CLAIMED = {
    # id: (technique, text, design_ref)
    'C03': ("must-pass-through (dominance) analysis over monomorphic MIR with a term domain; RFC key-schedule comparison",
            "Decides for every path of ServerLogin::finish, in every suite analysed, that Ok is only reachable through a successful full-length MAC "
            "comparison of the message's tag against a MAC keyed and fed from the stored state, that the released key is the state's, that failure maps to "
            "InvalidLoginError, and that the stored state fields are the RFC 9807 key-schedule values. This is the whole property modulo MAC unforgeability; "
            "static analysis is the right level because the statement is about all inputs/paths, which no test can enumerate.",
            "DESIGN.md section 5 C03"),
}

NA = {
    'C19': "group-law identities (DH symmetry, encoding round-trips, equality with DeriveDiffieHellmanKeyPair) are numerical facts about field/scalar arithmetic inside curve25519-dalek / primeorder / elliptic-curve; no structural fact about opaque-ke's three thin KeGroup impls entails them, and an idiom rule would fire on behaviour-preserving edits (DESIGN.md section 5 C19)",
}


def main():
    checks = []
    for pid in PROPS:
        if pid in CLAIMED:
            tech, text, ref = CLAIMED[pid]
            checks.append({
                'property_id': pid,
                'quick_cmd': './check %s --tier quick' % pid,
                'thorough_cmd': './check %s --tier thorough' % pid,
                'evidence_file': 'evidence/%s.json' % pid,
                'replay_cmd_template': './check %s --replay {path}' % pid,
                'engine': 'opqmir+py',
                'level_claimed': {'category': 'other', 'text': text, 'design_ref': ref},
                'level_note': NOTE_COMMON,
                'technique': 'static analysis: ' + tech,
            })
    na = []
    for pid in PROPS:
        if pid not in CLAIMED:
            na.append({'property_id': pid, 'reason': NA.get(pid, 'check under construction in this build round; see DESIGN.md section 5 for the planned rules')})
    m = {
        'version': 1,
        'setup_cmd': 'cd /verif && python3 engine/py/facts.py',
        'hooks': {'guard': 'opaque_ke_verif', 'enable': 'none needed: the analysis reads /repo through the compiler, no hooks are compiled in',
                  'baseline_off_cmd': 'cd /repo && cargo test --workspace --no-fail-fast --offline', 'source_commits': [], 'add_only': True},
        'engines': [
            {'name': 'opqmir', 'path': 'engine/driver', 'serves_properties': sorted(CLAIMED), 'kind_free_text': 'rustc_private fact extractor (generic and monomorphic MIR, constants evaluated, resolved callees)'},
            {'name': 'py', 'path': 'engine/py', 'serves_properties': sorted(CLAIMED), 'kind_free_text': 'path-partitioned abstract interpreter over a term domain + rule modules (no execution, no solver)'},
            {'name': 'harness', 'path': 'engine/harness/suites', 'serves_properties': sorted(CLAIMED), 'kind_free_text': 'names every API entry for 20 suites (+external key, +Argon2) so that instances can be walked; never executed'},
        ],
        'checks': checks,
        'not_applicable': na,
        'notes': 'Technique family: static analysis only. exit 0 = held; exit 1 + VIOLATION line = violated; exit 2 = analyser could not run (no verdict).',
    }
    json.dump(m, open(os.path.join(HERE, 'MANIFEST.json'), 'w'), indent=1)


if __name__ == '__main__':
    main()
