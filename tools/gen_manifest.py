#!/usr/bin/env python3
"""Regenerates /verif/MANIFEST.json from the table below (kept valid at all times)."""
import json, os
HERE = os.path.dirname(os.path.dirname(os.path.abspath(__file__)))
PROPS = [json.loads(l)['id'] for l in open(os.path.join(HERE, 'properties.jsonl'))]

NOTE_COMMON = ("Trusted: rustc type checking and MIR construction, the fact extractor, the model table of external "
               "functions (DESIGN 3.5), dependency summaries pinned to Cargo.lock versions (DESIGN 3.6); cryptographic "
               "assumptions where the text says 'modulo'. Numerical behaviour of primitives is not decided. Every path rule is accompanied by the "
               "lemmas that make its reading of the code legitimate: L-PROFILE / L-FEATURES (same summaries with debug assertions off and with the serde/std "
               "features off), L-CLONE (every Clone impl of the crate is field-wise identity), L-PARAMS (parameter constructors/defaults), L-EXPLORED (every "
               "summarised API function was explored completely and has a path), reviewed-function "
               "tables for the KeGroup codec, group-operation, hash-to-scalar and zero-test functions (DESIGN 11.9-11.13).")

def _c(tech, text, ref):
    return (tech, text, ref)


CLAIMED = {
    'C01': _c("composition: the honest registration+login harness function is interpreted as one program over the term domain (production MIR) with the stated dependency equations; sibling agreement of the compared terms",
              "Decides the mirror-agreement clause for every input shape (absent/explicit identities, context, KSF instance) and suite analysed: the three MAC comparisons of an honest run compare "
              "syntactically identical terms, the two session keys are one term, export key and server key at login are those of registration, production blinding is wired correctly, and no "
              "step refuses an input on a crate-local length test. That the primitives compute those terms correctly (group laws, HKDF) is numerical and not decided.", "DESIGN.md section 5 C01"),
    'C09': _c("term equality against an RFC 9807/9497 formula table (rfc.py, transcribed from the RFC, not the code) for every output; compiler-evaluated lengths vs RFC length formulas; finite-abstraction analysis of the integer encoder",
              "Decides the formula clause: for all inputs and every suite analysed, each output is the RFC's formula over the code's own components (labels by content, order, prefix widths, HKDF/HMAC "
              "wiring, message layouts, per-suite lengths). Byte values themselves are numerical and are not decided; that is what the vectors sample.", "DESIGN.md section 5 C09"),
    'C02': _c("term/guard analysis of the client steps over monomorphic MIR (password sinks, randomized-password formula, two dominating MAC comparisons, error mapping)",
              "Decides, for every path and suite analysed, that the password reaches the OPRF unmodified, that ClientLogin::finish can return Ok only after a successful envelope-MAC "
              "and server-MAC comparison whose keys descend from the randomized password, and that their failures map to InvalidLoginError. Structural clause of the property; "
              "that different passwords give different MACs is cryptographic and not decided.", "DESIGN.md section 5 C02"),
    'C03': _c("must-pass-through (dominance) analysis over monomorphic MIR with a term domain; RFC key-schedule comparison",
              "Decides for every path of ServerLogin::finish, in every suite analysed, that Ok is only reachable through a successful full-length MAC comparison of the message's tag "
              "against a MAC keyed and fed from the stored state, that the released key is the state's, that failure maps to InvalidLoginError, and that the stored state fields are the "
              "RFC 9807 key-schedule values. The whole property modulo MAC unforgeability.", "DESIGN.md section 5 C03"),
    'C04': _c("field-coverage (containment) + dominance analysis of ClientLogin::finish over monomorphic MIR; leaf fields enumerated from concrete type layouts",
              "Decides that every leaf field of the credential response and of the client's own request is in the MAC-verified preamble (or is the compared tag), that the verification "
              "dominates every output and that the reflected-value test is passed. Structural clause; MAC/hash security not decided.", "DESIGN.md section 5 C04"),
    'C06': _c("provenance analysis of the server public key term through registration and login (term domain over monomorphic MIR)",
              "Decides that the key reported to the client is the one authenticated by the envelope MAC and used in the DH slot, and that the server masks the public key of the setup's "
              "own private key. Structural clause; MAC security not decided.", "DESIGN.md section 5 C06"),
    'C08': _c("two-run comparison by term unification of the Some/None summaries of ServerLogin::start; formula check of the evaluation element",
              "Decides that the presence of a password file influences nothing but the choice of record, that the dummy record is (fresh RNG key, zero envelope, setup fake key), and "
              "that the evaluation is the same function of seed, credential id and request. Structural indistinguishability of the code path; statistical indistinguishability of values "
              "is not decided.", "DESIGN.md section 5 C08"),
    'C14': _c("provenance analysis of OPRF blind / evaluate / finalize terms in the production (cfg(not(test))) MIR",
              "Decides that the evaluation depends only on seed, credential id and request element, that the OPRF key contains seed and credential id, and that the production blind is a "
              "fresh draw whose state and message come from one voprf blind call on the password. Blind cancellation is algebra inside voprf and is assumed.", "DESIGN.md section 5 C14"),
    'C15': _c("counting/guard analysis of Ksf::hash events on every Ok path of the client finish steps (incl. an Argon2 suite)",
              "Decides the structure of the property completely: exactly one KSF call per finish path, right receiver on each branch of the parameter, argument = OPRF output, result bound "
              "into every password-derived secret, failure propagated. 'Different parameters fail' additionally needs the KSF to be a function of its parameters.", "DESIGN.md section 5 C15"),
    'C05': _c("term comparison of both preambles and both envelope MAC inputs with the RFC 9807 formulas; unique-decodability check of every hashed/MACed/HKDF string",
              "Decides binding (context, effective identities in RFC roles, credential identifier) and injectivity of every authenticated byte string (each variable-length part is 2-byte "
              "length-prefixed or the only variable part), for all inputs and every suite analysed. The arithmetic of the integer encoder is analysed by finite abstraction of its guard.", "DESIGN.md section 5 C05"),
    'C07': _c("elimination of the history quantifier: purity lemma (who-may-call + statics + type trees) + freshness provenance + transcript coverage + MAC guards",
              "Decides the three structural facts (no shared state, fresh per-session values drawn inside the start calls, both transcripts cover both parties' fresh values and all message fields) "
              "from which the routing-quantified statement follows under collision resistance and MAC unforgeability. The routings themselves are not enumerated.", "DESIGN.md section 5 C07"),
    'C10': _c("interval/length-set analysis with branch refinement on monomorphic decoders + symbolic encode(decode(input)) round trip + reviewed leaf-decoder table",
              "Decides length strictness and layout of the 11 public decoders fully (per suite, all paths) and leaf canonicity relative to a reviewed table of dependency decoders. Found and "
              "fixed three genuine defects (trailing bytes, two SEC1 alias encodings).", "DESIGN.md section 5 C10"),
    'C11': _c("who-may-construct analysis of the key newtypes (generic MIR), type-layout scan, and must-pass-through filters in each KeGroup decoder (monomorphic MIR)",
              "Decides that invalid encodings cannot become key values: construction discipline, presence of the required filters on every Ok path of each group decoder, serde parity. "
              "Found and fixed one genuine defect (Curve25519 small-order points). The zero test used for derived keys and the crate's forwarding voprf::Group impl are reviewed bodies. The filters' arithmetic is the dependencies'.", "DESIGN.md section 5 C11"),
    'C12': _c("panic-site and loop inventory over reachable monomorphic instances with path-wise discharge (constant conditions, length sets, exact-length copies), allow-list by symbol",
              "Decides for the crate's own code that every potential panic and loop reachable from the API is discharged or individually justified, that no length is narrowed and no result "
              "dropped. Dependencies are trusted not to panic on the arguments given.", "DESIGN.md section 5 C12"),
    'C13': _c("symbolic decode(encode(x)) field identity on monomorphic MIR (incl. the server setup under an external key type) + structural check of derived serde impls on generic MIR + purity lemma",
              "Decides that the native and serde encodings carry every field needed and that nothing outside (state, arguments, rng) influences the continuation. Value-level round trip of leaf "
              "encoders is the dependencies'. Found and fixed one genuine defect (a setup holding an external key whose encoding is not scalar-sized could not be reloaded).", "DESIGN.md section 5 C13, 11.4 F4"),
    'C16': _c("term comparison of the export-key formula at seal and open + secret-flow (taint under one-way nodes) analysis of every message and password-file field",
              "Decides that the export key is Expand(randomized_pwd, nonce||\"ExportKey\") at both ends with the envelope's fresh nonce, and that no secret reaches a message or the password file "
              "except under a one-way function. 'Does not appear verbatim', not computational hiding.", "DESIGN.md section 5 C16"),
    'C18': _c("call-graph who-may-call + guard analysis of the server code instantiated with an external key type; term equality with the direct-key instantiation",
              "Decides the structure completely: which SecretKey methods are invoked, that their errors reach the caller unchanged on every path, no unwrap, no response before the DH outcome, "
              "that external-key and direct-key runs compute the same terms, and that the stored setup image is seed || the key's own encoding || fake key and reloads.", "DESIGN.md section 5 C18"),
    'C19': _c("term analysis (path-partitioned abstract interpretation of monomorphic MIR over an uninterpreted term domain) of the three KeGroup impls and the KeyPair/PrivateKey/PublicKey wrappers, compared with reference terms and frozen tables of reviewed dependency functions",
              "Decides ONLY the structural clauses of the group laws, for all five groups: public_key = generator*sk and diffie_hellman = encode(pk*sk) are single reviewed multiplications of the unmodified arguments from one "
              "arithmetic family (plain or clamped); every wrapper pairs a private key with KeGroup::public_key of that same key and hands payloads through unmodified; the four codecs of each group are pure dependency "
              "codecs from one reviewed inverse pair; seeded derivation is the DeriveDiffieHellmanKeyPair formula over the reviewed HashToScalar and returns only zero-tested results (clamp for Curve25519); random_sk is a "
              "reviewed sampler behind a zero test. NOT decided: that the dependencies' scalar multiplication commutes, that their codecs are inverse on all values, numeric equality with the RFC vectors - the arithmetic "
              "content of C19 is out of reach of any analysis of this repository's source and is assumed.", "DESIGN.md section 5 C19"),
    'C17': _c("who-may-call analysis over the whole monomorphic call graph (deny-list of entropy/time/IO items, RNG receiver types) + provenance of each random quantity",
              "Decides for the production build where every random quantity comes from (a distinct draw on the caller's generator) and that no other entropy, time or global state is "
              "reachable. That independent tapes give different values is the tape's property.", "DESIGN.md section 5 C17"),
}

NA = {
}


def main():
    checks = []
    for pid in PROPS:
        if pid in CLAIMED:
            tech, text, ref = CLAIMED[pid]
            checks.append({
                'property_id': pid,
                'quick_cmd': './check %s --tier quick' % pid,
                'thorough_cmd': './check %s --tier thorough' % pid,
                'evidence_file': 'evidence/%s.json' % pid,
                'replay_cmd_template': './check %s --replay {path}' % pid,
                'engine': 'opqmir+py',
                'level_claimed': {'category': 'other', 'text': text, 'design_ref': ref},
                'level_note': NOTE_COMMON,
                'technique': 'static analysis: ' + tech,
            })
    na = []
    for pid in PROPS:
        if pid not in CLAIMED:
            na.append({'property_id': pid, 'reason': NA.get(pid, 'check under construction in this build round; see DESIGN.md section 5 for the planned rules')})
    m = {
        'version': 1,
        'setup_cmd': 'cd /verif && python3 engine/py/facts.py',
        'hooks': {'guard': 'opaque_ke_verif', 'enable': 'none needed: the analysis reads /repo through the compiler, no hooks are compiled in',
                  'baseline_off_cmd': 'cd /repo && cargo test --workspace --no-fail-fast --offline', 'source_commits': [], 'add_only': True},
        'engines': [
            {'name': 'opqmir', 'path': 'engine/driver', 'serves_properties': sorted(CLAIMED), 'kind_free_text': 'rustc_private fact extractor (generic and monomorphic MIR, constants evaluated, resolved callees)'},
            {'name': 'py', 'path': 'engine/py', 'serves_properties': sorted(CLAIMED), 'kind_free_text': 'path-partitioned abstract interpreter over a term domain + rule modules (no execution, no solver)'},
            {'name': 'harness', 'path': 'engine/harness/suites', 'serves_properties': sorted(CLAIMED), 'kind_free_text': 'names every API entry for 20 suites (+external key, +Argon2) so that instances can be walked; never executed'},
        ],
        'checks': checks,
        'not_applicable': na,
        'notes': 'Technique family: static analysis only. exit 0 = held; exit 1 + VIOLATION line = violated; exit 2 = analyser could not run (no verdict).',
    }
    json.dump(m, open(os.path.join(HERE, 'MANIFEST.json'), 'w'), indent=1)


if __name__ == '__main__':
    main()
