#!/usr/bin/env python3
"""Copy finished round-6 agent outputs from /tmp/wt6/<prop>/out/<v>/ into /verif/seeded/<prop>/<v>/ (patch.diff, demo.rs, meta.json).
usage: tools/import_round6.py C10 C11 ...   (prints the imported seed dirs, one per line)"""
import json, os, shutil, sys
for a in sys.argv[1:]:
    src = '/tmp/wt6/%s/out' % a
    prop = a.rstrip('x')
    if not os.path.isdir(src):
        continue
    for v in sorted(os.listdir(src)):
        d = os.path.join(src, v)
        if not all(os.path.exists(os.path.join(d, f)) for f in ('patch.diff', 'demo.rs', 'meta.json')):
            sys.stderr.write('incomplete: %s\n' % d); continue
        dst = '/verif/seeded/%s/%s' % (prop, v)
        os.makedirs(dst, exist_ok=True)
        for f in ('patch.diff', 'demo.rs', 'meta.json'):
            shutil.copy(os.path.join(d, f), os.path.join(dst, f))
        try:
            m = json.load(open(os.path.join(dst, 'meta.json')))
            m['round'] = 6
            m['breaks_property'] = prop
            json.dump(m, open(os.path.join(dst, 'meta.json'), 'w'), indent=1)
        except Exception as e:
            sys.stderr.write('meta.json of %s: %s\n' % (dst, e))
        print(dst)
