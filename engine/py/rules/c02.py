"""C02 — a wrong password never logs in (DESIGN section 5, C02)."""
import core
import rfc
from terms import *  # noqa
from rules.common import *  # noqa
from rules import anatomy as an

EXPLANATION = (
    "Term/guard analysis of the four client steps over monomorphic MIR, per suite. Decides (a) that the byte string handed to the OPRF "
    "blind and finalize calls is the caller's password parameter itself (no slice, no transformation); (b) that the randomized password is "
    "Extract(\"\", oprf_output || KSF(oprf_output)); (c) that every Ok path of ClientLogin::finish passes, in order, a successful full-length "
    "envelope MAC comparison keyed by Expand(randomized_pwd, nonce||\"AuthKey\") and a successful full-length server MAC comparison whose key "
    "descends from a Diffie-Hellman value computed with the envelope-derived client key, both before the result is constructed; (d) that the "
    "failure outcomes of unmasked-key decoding, envelope MAC and server MAC return InvalidLoginError; (e) that error types cannot carry key bytes."
)
ASSUMPTIONS = [
    "different passwords give different OPRF outputs / MACs (cryptographic; not decided)",
    "model table for voprf/digest/hmac/hkdf (DESIGN 3.5)",
]

PW = Sym('password')


def run(ctx):
    rep = core.Report('C02', ctx.tier, EXPLANATION, ASSUMPTIONS)
    n_sinks = n_guards = n_maps = 0
    for sn in ctx.suite_names:
        P = suite_params(sn)
        Nh = P['Nh']
        # R02.1 password sinks
        for which, callkey in (('creg_start', 'voprf::OprfClient::blind'), ('clog_start', 'voprf::OprfClient::blind'),
                               ('creg_finish', 'voprf::OprfClient::finalize'), ('clog_finish', 'voprf::OprfClient::finalize')):
            s = api_summary(ctx, sn, which)
            w = where_of(s)
            rep.ob('R02.0', '%s summary complete' % which, s.complete and bool(s.ok_paths), 'notes=%s' % s.notes, w, sn)
            seen = 0
            for p in s.ok_paths:
                calls = p.calls(callkey)
                good = len(calls) == 1 and calls[0][1][2][0] == PW
                seen += int(good)
                rep.ob('R02.1', '%s: OPRF input is the password parameter, whole and unmodified' % which, good,
                       'OPRF %s calls on Ok path: %s' % (callkey, [show(c[1][2][0]) for c in calls]), w, sn,
                       sample='%s(input=%s)' % (callkey, show(calls[0][1][2][0]) if calls else '-'))
            n_sinks += int(seen > 0)
        fin = api_summary(ctx, sn, 'clog_finish')
        w = where_of(fin)
        for p in fin.ok_paths:
            a = an.client_finish(p)
            # R02.2 randomized password
            good = False
            exp = None
            if 'o' in a and len(a['ksf_calls']) >= 1 and 'rp' in a:
                _, recv, arg = a['ksf_calls'][0]
                exp = rfc.randomized_pwd(a['o'], an.okval(App('Ksf::hash', recv, arg)), Nh)
                good = (a['rp'] == exp) and arg == a['o']
            rep.ob('R02.2', 'randomized password = Extract("", o || KSF(o)), o = Finalize(password, blind, evaluated)', good,
                   'got %s ; expected %s' % (show(a.get('rp'))[:500], show(exp)[:500]), w, sn, sample=show(a.get('rp'))[:400])
            # R02.3 two guards in order, before the result
            macs = a['mac_ok']
            env_ok = srv_ok = order_ok = False
            detail = 'successful MAC comparisons on Ok path: %d' % len(macs)
            if len(macs) >= 2 and 'rp' in a:
                (i1, k1, m1, t1, _, _), (i2, k2, m2, t2, _, _) = macs[0], macs[-1]
                ka = app_args(k1, 'Expand')
                env_ok = ka is not None and ka[0] == a['rp'] and cat_parts(ka[1])[-1:] == [Bytes(b'AuthKey')]
                # server MAC key must depend on a DH value computed with a secret derived from rp
                dhs = find_apps(k2, 'KeGroup::diffie_hellman')
                srv_ok = any(contains(d[2][1], a['rp']) for d in dhs) and app_args(m2, 'Hash') is not None
                ci = p.index_of_construct('ClientLoginFinishResult')
                order_ok = i1 < i2 and (ci is None or i2 < ci)
                detail = 'envelope key=%s ; server key has %d DH terms ; order=%s' % (show(k1)[:200], len(dhs), (i1, i2, ci))
            n_guards += int(env_ok and srv_ok and order_ok)
            rep.ob('R02.3', 'ClientLogin::finish Ok path passes envelope MAC check (key from randomized password)', env_ok, detail, w, sn)
            rep.ob('R02.3', 'ClientLogin::finish Ok path passes server MAC check (key from DH with password-derived client key)', srv_ok, detail, w, sn)
            rep.ob('R02.3', 'checks precede construction of ClientLoginFinishResult, envelope first', order_ok, detail, w, sn)
            rep.ob('R02.3', 'no Ok path after a failed MAC comparison', not a['mac_failed'], 'failed comparison on Ok path', w, sn)
        # R02.4 error mapping
        kinds = {'envelope-mac': 0, 'server-mac': 0, 'unmasked-key': 0}
        for p in fin.err_paths:
            a = an.client_finish(p)
            if a['mac_failed']:
                nth = len(a['mac_ok'])
                kind = 'envelope-mac' if nth == 0 else 'server-mac'
                kinds[kind] += 1
                rep.ob('R02.4', 'failure of %s maps to InvalidLoginError' % kind, p.payload == INVALID_LOGIN,
                       'returns %s' % show(p.payload)[:200], core.rel(a['mac_failed'][0][5]) or w, sn)
            else:
                # failed decode of the unmasked server public key
                for i, e in enumerate(p.events):
                    if e[0] == 'outcome' and e[2] == 'Err' and e[1][0] == 'app' and e[1][1] == 'KeGroup::deserialize_pk' \
                            and find_apps(e[1], 'xor'):
                        kinds['unmasked-key'] += 1
                        rep.ob('R02.4', 'failure of unmasked-key decoding maps to InvalidLoginError', p.payload == INVALID_LOGIN,
                               'returns %s' % show(p.payload)[:200], w, sn)
        n_maps += sum(1 for k in kinds.values() if k > 0)
        for k, v in kinds.items():
            rep.ob('R02.4', 'failure outcome of %s is reachable in the summary' % k, v > 0, 'no Err path through a failed %s' % k, w, sn)
    # R02.5 error types carry no byte arrays (generic facts)
    allowed = ("&'static str", 'usize', 'T', 'voprf::Error', 'voprf::InternalError', 'errors::InternalError<T>')
    for adt in ('opaque_ke::errors::ProtocolError', 'opaque_ke::errors::InternalError'):
        a = ctx.adt_fields.get(adt)
        rep.ob('R02.5', 'error type %s present' % adt, a is not None, 'missing ADT', '', None)
        if a:
            for v in a['variants']:
                for f in v['fields']:
                    rep.ob('R02.5', '%s::%s.%s carries no byte payload' % (adt.split('::')[-1], v['name'], f['name']),
                           f['ty'] in allowed, 'field type %s' % f['ty'], '', None)
    ns = len(ctx.suite_names)
    rep.floor('R02.1', 'password sinks', n_sinks, 4 * ns)
    rep.floor('R02.3', 'guarded Ok paths', n_guards, ns)
    rep.floor('R02.4', 'error mappings', n_maps, 3 * ns)
    from rules import profile
    profile.check(ctx, rep, 'R02.P', ['creg_start', 'clog_start', 'creg_finish', 'clog_finish'])
    from rules import lclone
    lclone.check(ctx, rep, 'R02.C')
    return rep
