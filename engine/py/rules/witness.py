"""Type-level witnesses (DESIGN 2.3): compile_fail doc-tests with compiling twins in the harness crate.
Thorough tier only (a doc-test build of the harness costs ~40 s).  A witness that stops failing to compile,
or a twin that stops compiling, is a violation naming the witness."""
import os
import re
import subprocess
import facts
import core

_RESULT = None


def _run():
    global _RESULT
    if _RESULT is not None:
        return _RESULT
    target = os.path.join(facts.WORK, 'tw')
    env = dict(os.environ, CARGO_TARGET_DIR=target, CARGO_NET_OFFLINE='true')
    env.pop('RUSTC_WORKSPACE_WRAPPER', None)
    import shutil
    shutil.copyfile(os.path.join(facts.REPO, 'Cargo.lock'), os.path.join(facts.HARNESS, 'Cargo.lock'))
    r = subprocess.run(['cargo', '+nightly', 'test', '--doc', '--offline'], cwd=facts.HARNESS, env=env, capture_output=True, text=True)
    out = r.stdout + r.stderr
    res = {}
    for m in re.finditer(r'^test src/witnesses\.rs - witnesses::(\w+) \(line \d+\)( - compile fail| - compile)? \.\.\. (\w+)', out, re.M):
        res[m.group(1)] = (m.group(2) or '').strip(' -'), m.group(3)
    if not res:
        raise facts.MachineryError('witness doc-tests did not run:\n' + out[-2000:])
    _RESULT = res
    return res


def check(ctx, rep, rule, names):
    """names: witness struct names (their twins are <name>Twin)"""
    if ctx.tier != 'thorough':
        return
    res = _run()
    for n in names:
        w = res.get(n)
        t = res.get(n + 'Twin')
        rep.ob(rule, 'witness %s: the violating program does not type-check (expected error code)' % n, w is not None and w[0] == 'compile fail' and w[1] == 'ok',
               'doc-test result: %s' % (w,), 'engine/harness/suites/src/witnesses.rs', None)
        rep.ob(rule, 'witness %s: the twin without the offending line type-checks' % n, t is not None and t[1] == 'ok',
               'doc-test result: %s' % (t,), 'engine/harness/suites/src/witnesses.rs', None)
