"""L-PROFILE: the release configuration (debug assertions and overflow checks off) computes the same thing.

The rules of every property run on the dev-profile MIR.  `debug_assert!`, `cfg!(debug_assertions)` and overflow checks are the only
profile-dependent constructs; this lemma re-summarises the functions a property relies on from facts extracted with
`-Cdebug-assertions=off -Coverflow-checks=off` and requires the same return states (outcome, result term, ordered events other than
compiler-inserted asserts).  A computation hidden inside a debug assertion (evaluated in tests, skipped in the binary users link) shows up
as a difference."""
import core
from terms import *  # noqa
from rules.common import *  # noqa


def _norm_events(p):
    out = []
    for e in p.events:
        if e[0] in ('assert', 'uninhabited-arm'):
            continue
        # drop span (last element when it is a string with a path)
        ee = tuple(x for x in e if not (isinstance(x, str) and ('/src/' in x or x.endswith('!') or x.startswith('/'))))
        out.append(ee)
    return tuple(out)


def _states(summary):
    return sorted(((p.outcome, p.value, _norm_events(p)) for p in summary.paths + summary.diverged), key=repr)


VARIANTS = (
    ('rel', '', 'computes the same return states with debug assertions off (release configuration)', 'dev', 'release'),
    # L-FEATURES: the harness links the library with `serde` and `std` on; a `default-features = false` user gets neither
    ('min', 'F', 'computes the same return states with the `serde` and `std` features off (L-FEATURES)', 'all-features', 'min-features'),
)


def check(ctx, rep, rule, whichs, suites=None):
    n = 0
    for var, suffix, text, la, lb in VARIANTS:
        vrule = rule if not suffix else (rule[:-1] + suffix if rule.endswith('P') else rule + suffix)
        for sn in (suites or ctx.suite_names):
            for which in whichs:
                gp, names = API[which] if which in API else (which, None)
                params = [Sym(x) for x in names] if names else None
                try:
                    a = ctx.summary(sn, gp, params=params)
                    b = ctx.summary(var + ':' + sn, gp, params=params)
                except KeyError as e:
                    rep.ob(vrule, '%s: instance present in both build configurations' % which, False, str(e), '', sn)
                    continue
                sa, sb = _states(a), _states(b)
                same = sa == sb
                n += int(same)
                detail = ''
                if not same:
                    da = [x for x in sa if x not in sb][:1]
                    db = [x for x in sb if x not in sa][:1]
                    detail = '%s-only state: %s\n%s-only state: %s' % (
                        la, [(o, show(v)[:300], [str(e)[:120] for e in ev if e not in (db[0][2] if db else ())][:4]) for o, v, ev in da],
                        lb, [(o, show(v)[:300], [str(e)[:120] for e in ev if e not in (da[0][2] if da else ())][:4]) for o, v, ev in db])
                rep.ob(vrule, '%s %s' % (which, text), same, detail, where_of(a), sn)
    return n
