"""C12 — total, panic-free handling of every input (DESIGN section 5, C12)."""
import re
import core
import num
from terms import *  # noqa
from rules.common import *  # noqa

EXPLANATION = (
    "Panic-site and loop inventory with discharge, per suite, over the monomorphic instances of opaque_ke reachable from the API roots. Every public entry (11 decoders and "
    "encoders, the eight protocol steps, setup constructors, key-pair API, and the KeGroup / Ksf impl methods they reach) is explored on all syntactic paths with symbolic "
    "inputs. On every path each potential panic is an obligation: compiler-inserted asserts (overflow, bounds, division) must have a constant-true condition or be sums of slice "
    "lengths; every range indexing a..b of a slice of length L must satisfy a <= b <= L for every input length admitted by the comparisons the path has passed so far; every "
    "fixed-size copy (clone_from_slice, copy_from_slice, from_slice) must have exactly the required length; unwrap/expect/panic!/unreachable! reached on a path must be on the "
    "allow-list (one symbol, one reason). Arms for uninhabited payloads (Infallible) are pruned by type. Static inventory: every panic-capable site of a reachable opaque_ke "
    "instance must have been visited by the exploration or lie in code the exploration proves unreachable; every loop must iterate over a finite std iterator or be allow-listed; "
    "the crate-local call graph must be acyclic; no narrowing integer cast of a non-constant; no fallible call whose result is never read. Dependencies below voprf are "
    "trusted not to panic on the arguments they are given (their assert counts are listed, not discharged)."
)
ASSUMPTIONS = ["dependencies (voprf, dalek, elliptic-curve, hkdf, hmac, digest, generic-array) do not panic on the arguments the crate passes them, except where an obligation above models the precondition (clone_from_slice, copy_from_slice, range indexing)",
               "slice lengths are at most isize::MAX, so a sum of two lengths cannot overflow usize"]

KEG = 'opaque_ke::key_exchange::group::KeGroup'
KSFT = 'opaque_ke::ksf::Ksf'

# R12.4 allow-list: (function generic path suffix, kind) -> reason
ALLOW_PANIC = {
    ('opaque_ke::keypair::KeyPair::<KG>::generate_random', 'unwrap'):
        "derive_auth_keypair fails only if 256 consecutive hash-to-scalar outputs are zero (probability 2^-64000) or never (Curve25519 clamp); the property's own anchor lists this site as an impossible branch",
}
ALLOW_LOOP = {
    '<opaque_ke::Ristretto255 as opaque_ke::key_exchange::group::KeGroup>::random_sk': 'rejection sampling of a non-zero scalar from the caller\'s RNG: terminates with probability 1',
    '<opaque_ke::Curve25519 as opaque_ke::key_exchange::group::KeGroup>::random_sk': 'rejection sampling of a non-zero clamped scalar from the caller\'s RNG: terminates with probability 1',
}
FINITE_ITER = re.compile(r'^(&mut )?(std|core)::(array::IntoIter|slice::Iter|slice::IterMut|iter::Chain|iter::Zip|iter::Flatten|option::IntoIter|ops::RangeInclusive<u8>|iter::Copied|iter::Map)')

PANIC_CALLS = ('core::panicking::', 'std::rt::panic_fmt', 'core::result::Result::unwrap', 'core::result::Result::expect', 'core::option::Option::unwrap',
               'core::option::Option::expect', 'core::ops::index::Index::index', 'core::ops::index::IndexMut::index_mut', 'core::slice::copy_from_slice',
               'generic_array::GenericArray::clone_from_slice', 'generic_array::GenericArray::from_slice', 'core::slice::split_at')


class _Prefix:
    """the part of a path before an obligation: only its events matter to the length reasoning"""

    def __init__(self, events):
        self.events = events


def DEP_LENGTHS(len_term, P):
    """lengths of byte strings produced by dependency encoders (DESIGN 3.6): (length, name, reason)"""
    a = app_args(len_term, 'len')
    if a is None:
        return None
    x = a[0]
    if x[0] == 'app' and x[1] == 'sec1::point::EncodedPoint::as_bytes':
        inner = x[2][0]
        if inner[0] == 'app' and inner[1].endswith('ToEncodedPoint::to_encoded_point') and inner[2][1] == Int(1):
            return (P['Npk'], 'sec1 EncodedPoint::as_bytes(to_encoded_point(p, compress = true))',
                    'a compressed SEC1 encoding of a non-identity point has 1 + field size bytes; the argument is a validated key (C11 R11.1) or its multiple by a non-zero scalar')
    return None


def entries(S):
    out = []
    seen = set()
    def add(b, params=None):
        if b['id'] not in seen:
            seen.add(b['id'])
            out.append((b, params))
    for which, (gp, names) in API.items():
        for b in S.by_generic.get(gp, []):
            add(b, [Sym(n) for n in names])
    for name, tp in DECODERS.items():
        for fn in ('deserialize', 'serialize'):
            for b in S.by_generic.get(tp + '::' + fn, []):
                add(b, [Sym('input')] if fn == 'deserialize' else [Sym('self')])
    for b in S.bodies.values():
        if b['crate'] != 'opaque_ke':
            continue
        gp = b['generic_path']
        if b.get('impl_trait_dpath') in (KEG, KSFT) or (b.get('trait_default') and 'KeGroup' in b.get('trait_default', '')):
            add(b)
        if gp.startswith('opaque_ke::keypair::KeyPair') or gp.startswith('opaque_ke::keypair::PublicKey') or 'as opaque_ke::keypair::SecretKey' in gp:
            add(b)
        if gp.startswith('opaque_ke::ServerSetup') or gp.startswith('opaque_ke::errors::'):
            add(b)
    return out


def static_sites(S):
    """panic-capable sites in reachable opaque_ke instances: {(generic_path, span, kind)}"""
    sites = set()
    for b in S.bodies.values():
        if b['crate'] != 'opaque_ke':
            continue
        for bb in b['blocks']:
            if bb['cleanup']:
                continue
            t = bb['term']
            if t['k'] == 'assert':
                sites.add((b['generic_path'], t.get('span', ''), 'assert'))
            elif t['k'] == 'call' and 'path' in t['callee']:
                import interp
                key = interp.callee_key(t['callee'])
                if any(key.startswith(p) for p in PANIC_CALLS):
                    sites.add((b['generic_path'], t.get('span', ''), key.split('::')[-1]))
    return sites


def back_edges(b):
    """loop headers of a body (DFS back edges over non-cleanup blocks)"""
    succ = {}
    for i, bb in enumerate(b['blocks']):
        t = bb['term']
        k = t['k']
        s = []
        if k in ('goto', 'drop', 'assert'):
            s = [t['t']]
        elif k == 'switch':
            s = [x for _, x in t['arms']] + [t['otherwise']]
        elif k == 'call' and t.get('t') is not None:
            s = [t['t']]
        succ[i] = s
    color = {}
    loops = []
    stack = [(0, iter(succ[0]))]
    color[0] = 1
    while stack:
        n, it = stack[-1]
        try:
            m = next(it)
            if color.get(m) == 1:
                loops.append((n, m))
            elif m not in color:
                color[m] = 1
                stack.append((m, iter(succ[m])))
        except StopIteration:
            color[n] = 2
            stack.pop()
    return loops, succ


def path_obligations(rep, short, p, var, P, sn, visited, S, tot):
    """evaluate every potential-panic obligation recorded on one explored path"""
    for i, e in enumerate(p.events):
        k = e[0]
        if k == 'assert':
            visited.add(e[-1])
            tot['assert'] += 1
            cond, exp = e[3], e[4]
            ok = cond[0] == 'int' and cond[1] == exp
            if not ok and cond[0] == 'app' and cond[1] == 'ovf':
                inner = cond[2][0]
                ok = inner[0] == 'app' and inner[1] in ('Add',) and all(x[0] == 'int' or (x[0] == 'app' and x[1] == 'len') for x in inner[2]) and exp == 0
            rep.ob('R12.2', '%s: compiler-inserted check (%s) cannot fail' % (short, e[2].split('(')[0].split('{')[0].strip()), ok,
                   'condition %s expected %s' % (show(cond)[:200], exp), core.rel(e[-1]), sn)
        elif k in ('slice', 'exact-len', 'index'):
            visited.add(e[-1])
            tot['slice'] += 1
            pre = _Prefix(p.events[:i])
            L = num.path_lengths(pre, var, P, None) if var is not None else num.Lens()
            vals = L.values()[:] + ([num.WINDOW, 10 ** 9] if L.unbounded else [])

            def ev_lin(t):
                l = num.lin(t, var) if var is not None else (None if t[0] != 'int' else (0, t[1]))
                if l is None and t[0] == 'int':
                    l = (0, t[1])
                return l
            if k == 'slice':
                LL, a, bnd = ev_lin(e[1]), ev_lin(e[2]), ev_lin(e[3])
                if None in (LL, a, bnd):
                    rep.ob('R12.2', '%s: range indexing is in bounds' % short, False, 'cannot bound %s[%s..%s]' % (show(e[1])[:80], show(e[2])[:60], show(e[3])[:60]), core.rel(e[-1]), sn)
                else:
                    f = lambda n: 0 <= a[0] * n + a[1] <= bnd[0] * n + bnd[1] <= LL[0] * n + LL[1]
                    bad = [n for n in vals if not f(n)]
                    rep.ob('R12.2', '%s: range indexing is in bounds' % short, not bad,
                           'for len(input)=%s the range %s..%s exceeds length %s (admissible lengths at this point: %s)' % (bad[:3], show(e[2])[:40], show(e[3])[:40], show(e[1])[:40], L.describe()),
                           core.rel(e[-1]), sn)
            elif k == 'exact-len':
                LL, nn = ev_lin(e[1]), ev_lin(e[2])
                dep = DEP_LENGTHS(e[1], P)
                if LL is None and dep is not None:
                    LL = (0, dep[0])
                    rep.extra.setdefault('dependency_length_summaries_used', {})[dep[1]] = dep[2]
                if None in (LL, nn) or (nn == (0, -1)):
                    rep.ob('R12.2', '%s: fixed-size copy has exactly the required length' % short, False, 'cannot bound %s vs %s' % (show(e[1])[:80], show(e[2])[:40]), core.rel(e[-1]), sn)
                else:
                    bad = [n for n in vals if LL[0] * n + LL[1] != nn[0] * n + nn[1]]
                    rep.ob('R12.2', '%s: fixed-size copy has exactly the required length' % short, not bad,
                           '%s of %s bytes into %s (for len(input)=%s; admissible: %s)' % (e[3], show(e[1])[:60], show(e[2])[:20], bad[:3], L.describe()), core.rel(e[-1]), sn)
            else:
                LL, ix = ev_lin(e[1]), ev_lin(e[2])
                ok = None not in (LL, ix) and all(0 <= ix[0] * n + ix[1] < LL[0] * n + LL[1] for n in vals)
                rep.ob('R12.2', '%s: element indexing is in bounds' % short, ok, 'index %s of length %s' % (show(e[2])[:40], show(e[1])[:40]), core.rel(e[-1]), sn)
        elif k == 'unwrap':
            visited.add(e[-1])
        elif k in ('panic', 'diverge'):
            visited.add(e[-1])
            kind = e[1].split('::')[-1]
            allowed = [r for (fn, kd), r in ALLOW_PANIC.items() if kd == kind and any(fn == x[1] for x in [('', fn)]) and fn in _enclosing(S, e[-1])]
            rep.ob('R12.4', '%s: reaches %s' % (short, e[1]), bool(allowed),
                   'a path of this entry reaches a panic (%s) at %s that is not on the allow-list' % (e[1], core.rel(e[-1])), core.rel(e[-1]), sn)
        elif k in ('LOOPSUM', 'LOOP-CAP', 'UNHANDLED-TERM', 'indirect-call'):
            if k == 'LOOPSUM' and e[1] == 'range':
                continue    # bounded counter loop over a RangeInclusive<u8>: classified by R12.5
            rep.ob('R12.5', '%s: control flow fully interpreted' % short, False, '%s at %s' % (k, e[-1]), core.rel(str(e[-1])), sn)


def run(ctx):
    rep = core.Report('C12', ctx.tier, EXPLANATION, ASSUMPTIONS)
    import interp
    tot = {'assert': 0, 'slice': 0}
    names = []
    for sn in ctx.suite_names:
        names += [sn, sn + '-remote']      # the external-key instantiation reaches the SecretKey error paths
    for sn in names:
        P = suite_params(sn)
        S = ctx.suite(sn)
        visited = set()
        n_entries = 0
        for b, params in entries(S):
            n_entries += 1
            s = ctx.summary(sn, b['generic_path'], params=params) if len(S.by_generic[b['generic_path']]) == 1 else None
            if s is None:
                continue
            w = where_of(s)
            short = b['generic_path'].replace('opaque_ke::', '')[:90]
            tolerated = b['generic_path'] in ALLOW_LOOP and all('loop cap' in n for n in s.notes)
            rep.ob('R12.0', '%s explored completely' % short, s.complete or tolerated, str(s.notes), w, sn)
            var = Sym('input') if (params and params[0] == Sym('input')) else (s.params[0] if s.params else None)
            for p in s.paths + s.diverged:
                path_obligations(rep, short, p, var, P, sn, visited, S, tot)
        rep.ob('R12.0', 'entries explored', n_entries >= (40 if not sn.endswith('-remote') else 8), 'entries=%d' % n_entries, '', sn)
        # ---- static inventory vs visited
        sites = static_sites(S)
        n_assert = sum(1 for s_ in sites if s_[2] == 'assert')
        n_other = len(sites) - n_assert
        unvisited = sorted(s_ for s_ in sites if s_[1] not in visited)
        rep.extra.setdefault('inventory', {})[sn] = {'assert_sites': n_assert, 'call_sites': n_other, 'visited': len(sites) - len(unvisited),
                                                     'unreached_on_every_path': ['%s @ %s (%s)' % (a[0][-70:], core.rel(a[1]), a[2]) for a in unvisited][:40]}
        for gp, sp, kind in unvisited:
            if kind in ('panic', 'panic_fmt', 'unreachable_display', 'panic_explicit'):
                # explicit panic sites never reached by any explored path of any entry: unreachable from the API (R12.3)
                continue
            # other unvisited sites: must belong to bodies that no explored path entered at that block (dead arm); report if whole body never entered
        # voprf assert counts (listed, not discharged)
        rep.extra['inventory'][sn]['dependency_asserts_listed'] = sum(l.get('asserts', 0) for l in S.leaves.values())
        rep.ob('R12.1', 'inventory is not empty (asserts)', n_assert >= (20 if not sn.endswith('-remote') else 5), 'assert sites=%d' % n_assert, '', sn)
        rep.ob('R12.1', 'inventory is not empty (indexing / copies / unwrap / panic)', n_other >= (40 if not sn.endswith('-remote') else 10), 'sites=%d' % n_other, '', sn)
        # ---- R12.5 loops and recursion
        edges = {}
        for b in S.bodies.values():
            if b['crate'] != 'opaque_ke':
                continue
            loops, succ = back_edges(b)
            callees = set()
            for bb in b['blocks']:
                t = bb['term']
                if t['k'] == 'call' and (t.get('res') or {}).get('id') in S.bodies and S.bodies[t['res']['id']]['crate'] == 'opaque_ke':
                    callees.add(t['res']['id'])
                for st in bb['stmts']:
                    pass
            edges[b['id']] = callees
            if loops:
                # iterator types consumed by `next` calls in this body
                its = [t['callee'].get('self_ty') or (t['callee'].get('args') or [''])[0] for bb in b['blocks'] for t in [bb['term']]
                       if t['k'] == 'call' and interp.callee_key(t['callee']).endswith('Iterator::next')]
                finite = bool(its) and all(FINITE_ITER.match(x or '') for x in its)
                allow = ALLOW_LOOP.get(b['generic_path'])
                if not finite and not allow and len(S.by_generic.get(b['generic_path'], [])) == 1:
                    # a loop that is not over an iterator: finite if the exploration of the function on symbolic arguments unrolled it
                    # completely, i.e. every path left the loop within the unrolling cap (no LOOP-CAP / summarised iteration)
                    ls = ctx.summary(sn, b['generic_path'], params=[Sym('arg%d' % i) for i in range(b.get('argc', 0))])
                    finite = ls.complete and not ls.notes and not any(e[0] in ('LOOP-CAP', 'LOOPSUM') for q in ls.paths + ls.diverged for e in q.events)
                    its = its or ['(no iterator; exhaustively unrolled: %s)' % finite]
                rep.ob('R12.5', 'loop in %s iterates over a finite iterator or is allow-listed' % b['generic_path'].replace('opaque_ke::', '')[:80], finite or bool(allow),
                       'iterators: %s' % its, core.body_loc(b), sn)
        # recursion
        color = {}
        cyc = []
        def dfs(n):
            color[n] = 1
            for m in edges.get(n, ()):
                if color.get(m) == 1:
                    cyc.append((n, m))
                elif m not in color:
                    dfs(m)
            color[n] = 2
        for n in list(edges):
            if n not in color:
                dfs(n)
        rep.ob('R12.5', 'crate-local call graph is acyclic', not cyc, str([(S.bodies[a]['generic_path'][-50:], S.bodies[b_]['generic_path'][-50:]) for a, b_ in cyc][:3]), '', sn)
        # ---- R12.6 narrowing casts, R12.7 dropped results
        for gp, kind, detail, span in casts_and_drops(S, 'opaque_ke'):
            if kind == 'cast':
                rep.ob('R12.6', 'no narrowing cast of a non-constant in %s' % gp.replace('opaque_ke::', '')[:80], False, detail, core.rel(span), sn)
            else:
                rep.ob('R12.7', 'no fallible call whose result is never read in %s' % gp.replace('opaque_ke::', '')[:80], False, detail, core.rel(span), sn)
    # ---- R12.S hand-written serde impls (not reached by the native-path harness): explored on the generic MIR of the library
    import interp as _interp
    GS = _interp.GSuite(ctx.g)
    n_serde = 0
    for b in GS.bodies.values():
        tr = b.get('impl_trait_dpath') or ''
        if not tr.startswith('serde_core::'):
            continue
        if b.get('span', '').endswith('!'):
            continue        # derive output: serde's own code generator (dependency)
        n_serde += 1
        params = [Sym('arg%d' % i) for i in range(1, b['argc'] + 1)]
        I, outs = _interp.summarize(GS, b, params, adts=ctx.adts)
        short = 'serde:' + b['path'][:80]
        rep.ob('R12.S', '%s explored completely' % short, not any(n.startswith('STOP') or 'loop cap' in n or 'opaque' in n for n in I.notes), str(I.notes[:3]), core.body_loc(b), None)
        P0 = {'Npk': -1, 'Nsk': -1}
        for st, ret in outs:
            path_obligations(rep, short, core.Path(st, ret), params[0] if params else None, P0, None, set(), GS, tot)
        for st in I.diverged:
            path_obligations(rep, short, core.Path(st, ('unk', 'diverged')), params[0] if params else None, P0, None, set(), GS, tot)
    rep.floor('R12.S', 'hand-written serde impl bodies explored', n_serde, 4)
    import os, facts
    if os.path.isdir(facts.FIXTURES):
        from rules import fixtures
        rep.extra['fixture_selftest_casts_drops'] = fixtures.selftest_casts_drops(ctx)
    ns = len(ctx.suite_names)
    rep.floor('R12.2', 'assert obligations evaluated', tot['assert'], 100 * ns)
    rep.floor('R12.2', 'slice / copy obligations evaluated', tot['slice'], 60 * ns)
    from rules import profile
    profile.check(ctx, rep, 'R12.P', list(API) + [tp + '::deserialize' for tp in DECODERS.values()])
    return rep


def casts_and_drops(S, crate):
    """[(generic_path, 'cast'|'drop', detail, span)] for narrowing casts of run-time values and fallible results never read"""
    import interp
    out = []
    width = {'u8': 8, 'u16': 16, 'u32': 32, 'u64': 64, 'usize': 64, 'u128': 128, 'i32': 32, 'isize': 64, 'i64': 64, 'i8': 8, 'i16': 16}
    for b in S.bodies.values():
        if b['crate'] != crate:
            continue
        reads = set()
        for bb in b['blocks']:
            for st in bb['stmts']:
                if st['k'] == 'assign':
                    _collect_reads(st['rv'], reads)
                    for pe in st['place']['p']:
                        if pe[0] == 'index':
                            reads.add(pe[1])
            t = bb['term']
            if t['k'] == 'call':
                for a in t['args']:
                    _op_reads(a, reads)
            elif t['k'] == 'switch':
                _op_reads(t['discr'], reads)
            elif t['k'] == 'assert':
                _op_reads(t['cond'], reads)
        for bb in b['blocks']:
            if bb['cleanup']:
                continue
            for st in bb['stmts']:
                if st['k'] == 'assign' and st['rv'].get('k') == 'cast' and st['rv'].get('kind', '').startswith('IntToInt'):
                    fr, to = st['rv']['from'], st['rv']['to']
                    if width.get(to, 64) < width.get(fr, 0) and st['rv']['op']['k'] != 'const':
                        out.append((b['generic_path'], 'cast', 'cast %s -> %s of a runtime value (a length above the target range would wrap instead of being refused)' % (fr, to), st.get('span', '')))
            t = bb['term']
            if t['k'] == 'call' and not t['dest']['p'] and t.get('t') is not None:
                dty = b['locals'][t['dest']['l']]['ty']
                if (dty.startswith('std::result::Result<') or dty.startswith('core::result::Result<')) and t['dest']['l'] not in reads and t['dest']['l'] != 0:
                    if not t.get('span', '').endswith('!'):
                        out.append((b['generic_path'], 'drop', 'result of %s is dropped' % interp.callee_key(t['callee']), t.get('span', '')))
    return out


def _enclosing(S, span):
    """generic paths of opaque_ke bodies whose span file:line range contains the site (approximation by terminator span match)"""
    out = []
    for b in S.bodies.values():
        for bb in b['blocks']:
            if bb['term'].get('span') == span:
                out.append(b['generic_path'])
    return ' '.join(out)


def _op_reads(o, reads):
    if o.get('k') in ('copy', 'move'):
        reads.add(o['place']['l'])
        for pe in o['place']['p']:
            if pe[0] == 'index':
                reads.add(pe[1])


def _collect_reads(rv, reads):
    k = rv.get('k')
    if k in ('use', 'cast', 'repeat'):
        _op_reads(rv['op'], reads)
    elif k in ('ref', 'rawptr', 'discr', 'copyforderef'):
        reads.add(rv['place']['l'])
    elif k == 'binop':
        _op_reads(rv['a'], reads)
        _op_reads(rv['b'], reads)
    elif k == 'unop':
        _op_reads(rv['a'], reads)
    elif k == 'aggr':
        for o in rv['ops']:
            _op_reads(o, reads)
