"""C17 — deterministic in the supplied randomness; every random value is fresh (DESIGN section 5, C17)."""
import core
from terms import *  # noqa
from rules.common import *  # noqa
from rules import anatomy as an
from rules import lpure

EXPLANATION = (
    "Who-may-call + provenance analysis of the production build (cfg(not(test)) code, monomorphic MIR, per suite). (1) L-PURE: the library has no "
    "mutable / interior-mutable / thread-local static and no unsafe code, and no instance reachable from any API root belongs to an entropy, time, "
    "environment, file, network or thread API; every RngCore method instance reached has the caller's generator type as receiver. (2) each of the "
    "random quantities (OPRF blind x2, envelope nonce, masking nonce, client and server nonce, client and server ephemeral key seeds, server OPRF "
    "seed, static and fake key seeds, fake-record masking key) is defined by a draw on the `rng` parameter of the public function that creates it; "
    "(3) the draws of one call have pairwise distinct indices and no quantity is assigned from another; (4) the receiver of every draw event is the "
    "parameter itself. 'Values differ between independent tapes' is then a property of the tape, not of this code."
)
ASSUMPTIONS = ["the caller's generator yields independent values for distinct draws", "voprf's blind draws from the generator it is given (summary, DESIGN 3.6)"]


def draws_on_path(p):
    return [e for e in p.events if e[0] == 'rng']


def run(ctx):
    rep = core.Report('C17', ctx.tier, EXPLANATION, ASSUMPTIONS)
    lpure.check(ctx, rep, 'R17.1')
    n_q = 0

    def quantity(sn, which, p, name, term, w, seed_of=False):
        """`term` must be a draw on the rng parameter (or, for key pairs, derived from one)"""
        nonlocal n_q
        if seed_of:
            ds = find_apps(term, 'KeGroup::derive_auth_keypair')
            nsk = suite_params(sn)['Nsk']
            # the seed is one whole draw of Nsk bytes (not a shorter draw padded, nor a slice of a longer one)
            good = bool(ds) and all(is_rng_draw(d[2][0]) and d[2][0][2][2] == Int(nsk) for d in ds)
            got = ds[0][2][0] if ds else None
        else:
            good = is_rng_draw(term)
            got = term
        n_q += int(good)
        rep.ob('R17.2', "%s: %s is a draw from the caller's generator" % (which, name), good, '%s = %s' % (name, show(term)[:200]), w, sn,
               sample='%s := %s' % (name, show(got)[:80]))
        return got if good else None

    for sn in ctx.suite_names:
        # client starts
        for which in ('creg_start', 'clog_start'):
            s = api_summary(ctx, sn, which)
            w = where_of(s)
            for p in s.ok_paths:
                res = fields(p.payload)
                qs = []
                st = subterms(res.get('state'), lambda t: t[0] == 'app' and t[1] == 'OprfClient')
                qs.append(quantity(sn, which, p, 'OPRF blind', st[0][2][0] if st else None, w))
                if which == 'clog_start':
                    msg = fields(res.get('message'))
                    ke1 = None
                    for v in msg.values():
                        if v is not None and v[0] == 'adt' and 'Ke1Message' in v[1]:
                            ke1 = fields(v)
                    if ke1 is None:
                        rep.ob('R17.2', 'clog_start: key-exchange message found', False, show(res.get('message'))[:200], w, sn)
                    else:
                        nonces = [v for v in ke1.values() if v[0] != 'adt']
                        pks = [v for v in ke1.values() if v[0] == 'adt']
                        qs.append(quantity(sn, which, p, 'client nonce', nonces[0] if nonces else None, w))
                        qs.append(quantity(sn, which, p, 'client ephemeral key seed', pks[0] if pks else None, w, seed_of=True))
                check_distinct(rep, sn, which, p, qs, w)
        # registration finish: envelope nonce
        s = api_summary(ctx, sn, 'creg_finish')
        w = where_of(s)
        for p in s.ok_paths:
            env = fields(msg_envelope(fields(p.payload).get('message')))
            macs = [v for v in env.values() if app_args(v, 'Mac')]
            nonce = None
            if macs:
                first = cat_parts(macs[0][2][1])[:1]
                nonce = first[0] if first else None
            q = quantity(sn, 'creg_finish', p, 'envelope nonce (first part of the sealed MAC input, stored in the envelope)', nonce, w)
            rep.ob('R17.2', 'creg_finish: the drawn nonce is the one stored in the envelope', nonce is not None and nonce in env.values(), str(sorted(env))[:200], w, sn)
            check_distinct(rep, sn, 'creg_finish', p, [q], w)
        # server login start
        s = api_summary(ctx, sn, 'slog_start')
        w = where_of(s)
        for p in s.ok_paths:
            msg = fields(fields(p.payload).get('message'))
            qs = []
            top_nonces = [v for k, v in msg.items() if v[0] != 'adt' and is_rng_draw(v)]
            qs.append(quantity(sn, 'slog_start', p, 'masking nonce', top_nonces[0] if top_nonces else None, w))
            ke2 = None
            for v in msg.values():
                if v is not None and v[0] == 'adt' and 'Ke2Message' in v[1]:
                    ke2 = fields(v)
            if ke2 is None:
                rep.ob('R17.2', 'slog_start: key-exchange message found', False, '', w, sn)
                continue
            sn_ = [v for v in ke2.values() if is_rng_draw(v)]
            qs.append(quantity(sn, 'slog_start', p, 'server nonce', sn_[0] if sn_ else None, w))
            pks = [v for v in ke2.values() if v[0] == 'adt']
            qs.append(quantity(sn, 'slog_start', p, 'server ephemeral key seed', pks[0] if pks else None, w, seed_of=True))
            if p.state.assume.get(Sym('file')) == 0:
                prks = [e[1] for e in p.events if e[0] == 'expand' and cat_parts(e[2])[-1:] == [Bytes(b'CredentialResponsePad')]]
                qs.append(quantity(sn, 'slog_start', p, 'fake-record masking key', prks[0] if prks else None, w))
            check_distinct(rep, sn, 'slog_start', p, qs, w)
        # setup (also with an externally held static key, whose serialised length differs from the group's scalar length)
        for sx in (sn, sn + '-remote'):
            s = api_summary(ctx, sx, 'setup_new_with_key')
            w = where_of(s)
            for p in s.ok_paths:
                vals = fields(p.value)
                seeds = [v for v in vals.values() if is_rng_draw(v)]
                kps = [v for v in vals.values() if find_apps(v, 'KeGroup::derive_auth_keypair')]
                qs = [quantity(sx, 'setup_new_with_key', p, 'server OPRF seed', seeds[0] if seeds else None, w),
                      quantity(sx, 'setup_new_with_key', p, 'fake key seed', kps[0] if kps else None, w, seed_of=True)]
                check_distinct(rep, sx, 'setup_new_with_key', p, qs, w)
        s = api_summary(ctx, sn, 'setup_new')
        w = where_of(s)
        for p in s.ok_paths:
            vals = fields(p.value)
            kps = [v for v in vals.values() if find_apps(v, 'KeGroup::derive_auth_keypair')]
            seeds = set()
            for v in kps:
                for d in find_apps(v, 'KeGroup::derive_auth_keypair'):
                    seeds.add(d[2][0])
            good = len(kps) == 2 and len(seeds) == 2 and all(is_rng_draw(x) for x in seeds)
            n_q += int(good)
            rep.ob('R17.2', 'setup_new: static key seed and fake key seed are two different draws', good, show(p.value)[:300], w, sn)
            check_distinct(rep, sn, 'setup_new', p, list(seeds) + [v for v in vals.values() if is_rng_draw(v)], w)
    # R17.5 the generator is used through the caller's `&mut` only: a draw on a copy of it (R: Clone) is a draw the caller's generator
    # never sees, so the next operation on the same generator repeats the bytes (seed C16/i).  The term domain cannot tell a copy of
    # an opaque generator from the generator, hence a who-may-call rule on the monomorphic call graph.
    rep.extra['fixture_selftest_rng_copies'] = selftest_rng_copies(ctx)
    for sn in ctx.suite_names:
        S = ctx.suite(sn)
        sites = rng_copies(S, 'opaque_ke', 'TapeRng')
        rep.ob('R17.5', "the caller's generator is never copied (no Clone::clone / clone_from on the generator type in the library)", not sites,
               'copies at: %s' % [(gp.replace('opaque_ke::', '')[:60], nm, core.rel(sp)) for gp, nm, sp in sites][:3], sites[0][2] if sites else '', sn)
    # every function whose random quantities are judged above was explored completely and returns on some path (a summary without a
    # returning path would make the loops above vacuous)
    for sn in ctx.suite_names:
        for which in ('creg_start', 'clog_start', 'creg_finish', 'slog_start', 'setup_new', 'setup_new_with_key'):
            s = api_summary(ctx, sn, which)
            rep.ob('R17.0', '%s explored completely, with a returning path' % which, s.complete and bool(s.ok_paths),
                   'paths %d ok %d notes %s' % (len(s.paths), len(s.ok_paths), s.notes[:2]), where_of(s), sn)
    ns = len(ctx.suite_names)
    # per suite: 1 + 3 + 8 + (8*3 + 4) + 2 + 2 (external key) + 1
    rep.floor('R17.2', 'random quantities established', n_q, ns * 42)
    from rules import profile
    profile.check(ctx, rep, 'R17.P', ['creg_start', 'clog_start', 'creg_finish', 'slog_start', 'setup_new', 'setup_new_with_key'])
    return rep


def rng_copies(S, crate, rng_ty):
    """call sites in `crate` that copy the caller's generator (Clone::clone / clone_from on the generator type): [(function, callee, span)]"""
    out = []
    for b in S.bodies.values():
        if b.get('crate') != crate:
            continue
        for bb in b['blocks']:
            t = bb.get('term', {})
            if t.get('k') != 'call':
                continue
            c = t['callee']
            if c.get('trait_dpath') in ('core::clone::Clone', 'std::clone::Clone') and any(rng_ty in (a or '') for a in [c.get('self_ty')] + list(c.get('args') or [])[:1]):
                out.append((b['generic_path'], c.get('name'), t.get('span', '')))
    return out


_RNGCLONE_SELFTEST = {}


def selftest_rng_copies(ctx):
    if 'done' not in _RNGCLONE_SELFTEST:
        import facts
        S = ctx.suite('fx:fx')
        fns = set(gp.split('::')[-1] for gp, _, _ in rng_copies(S, 'fixtures', 'FxRng'))
        problems = []
        if 'root_fx__rngclone_bad' not in fns:
            problems.append('generator-copy scan did not report root_fx__rngclone_bad')
        if 'root_fx__rngclone_good' in fns:
            problems.append('generator-copy scan reported root_fx__rngclone_good')
        if problems:
            raise facts.MachineryError('fixture self-test failed: ' + '; '.join(problems))
        _RNGCLONE_SELFTEST['done'] = sorted(fns)
    return _RNGCLONE_SELFTEST['done']


def check_distinct(rep, sn, which, p, qs, w):
    qs = [q for q in qs if q is not None and is_rng_draw(q)]
    idx = [q[2][1] for q in qs]
    rep.ob('R17.3', '%s: distinct quantities use distinct draws' % which, len(set(idx)) == len(idx), 'draw indices %s' % [show(i) for i in idx], w, sn)
    for e in draws_on_path(p):
        rep.ob('R17.4', "%s: every draw on the path has the `rng` parameter itself as receiver" % which, e[2] == Sym('rng'),
               'draw %s on receiver %s at %s' % (e[1], show(e[2]), core.rel(e[5])), core.rel(e[5]), sn)
    ks = [e[3] for e in draws_on_path(p)]
    rep.ob('R17.3', '%s: draw events are numbered consecutively (no buffer drawn twice)' % which, ks == list(range(len(ks))), str(ks), w, sn)
