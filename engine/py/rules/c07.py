"""C07 — sessions are fresh and isolated under adversarial message routing (DESIGN section 5, C07)."""
import core
import rfc
from terms import *  # noqa
from rules.common import *  # noqa
from rules import anatomy as an
from rules import lpure

EXPLANATION = (
    "The quantification over routings is eliminated rather than enumerated: (a) L-PURE — every operation is a function of its arguments, the state passed in and "
    "the draws it makes from the caller's generator (no static/thread-local/interior-mutable state, no ambient entropy reachable), and the state and message "
    "types own their data (no references or shared pointers in their type trees); (b) freshness — client nonce, client ephemeral key seed and OPRF blind are "
    "draws made inside ClientLogin::start, server nonce, server ephemeral key seed and masking nonce inside ServerLogin::start; (c) coverage — on every Ok path the "
    "preamble hashed by each side contains both nonces, both ephemeral public keys, the blinded and evaluated elements, masking nonce and masked response, and the "
    "session key and both MAC keys are expanded from Hash(preamble); (d) acceptance only through the MAC guards (every Ok path of either finish step passes a "
    "successful full-length MAC comparison over that hash). From these the history-quantified statement follows under collision resistance and MAC unforgeability."
)
ASSUMPTIONS = ["hash collision resistance, MAC unforgeability", "independent values for distinct draws of the caller's generator"]

BAD_TY = ('&', 'Rc<', 'Arc<', 'Cell<', 'RefCell<', 'Mutex<', 'RwLock<', 'Atomic', '*const', '*mut')


def type_tree(S, ty, seen=None, out=None):
    if seen is None:
        seen, out = set(), []
    if ty in seen:
        return out
    seen.add(ty)
    t = S.types.get(ty)
    out.append(ty)
    if t:
        for v in t['variants']:
            for f in v['fields']:
                type_tree(S, f['ty'], seen, out)
    return out


def run(ctx):
    rep = core.Report('C07', ctx.tier, EXPLANATION, ASSUMPTIONS)
    lpure.check(ctx, rep, 'R07.5')
    n_fresh = n_cov = 0
    for sn in ctx.suite_names:
        P = suite_params(sn)
        S = ctx.suite(sn)
        # R07.1 freshness
        s = api_summary(ctx, sn, 'clog_start')
        w = where_of(s)
        for p in s.ok_paths:
            res = fields(p.payload)
            st = subterms(res.get('state'), lambda t: t[0] == 'app' and t[1] == 'OprfClient')
            draws = set()
            ok = bool(st) and is_rng_draw(st[0][2][0])
            if ok:
                draws.add(st[0][2][0])
            msg = res.get('message')
            leaves = [x for x in subterms(msg, lambda t: is_rng_draw(t))]
            seeds = [d[2][0] for d in find_apps(msg, 'KeGroup::derive_auth_keypair')]
            ok = ok and len(set(leaves)) >= 3 and all(is_rng_draw(x) for x in seeds) and bool(seeds)
            n_fresh += 3 * int(ok)
            rep.ob('R07.1', 'ClientLogin::start: blind, nonce and ephemeral key seed are three distinct draws made inside the call', ok and len(set(leaves)) == 3,
                   'draws in message/state: %s' % [show(x) for x in set(leaves)], w, sn)
        s = api_summary(ctx, sn, 'slog_start')
        w = where_of(s)
        for p in s.ok_paths:
            msg = fields(p.payload).get('message')
            draws = set(x for x in subterms(msg, lambda t: is_rng_draw(t)))
            seeds = [d[2][0] for d in find_apps(msg, 'KeGroup::derive_auth_keypair')]
            need = 3 if p.state.assume.get(Sym('file')) == 1 else 4
            ok = len(draws) == need and bool(seeds) and all(is_rng_draw(x) for x in seeds)
            n_fresh += 3 * int(ok)
            rep.ob('R07.1', 'ServerLogin::start: masking nonce, server nonce and ephemeral key seed are distinct draws made inside the call', ok,
                   'draws in message: %s' % sorted(show(x) for x in draws), w, sn)
            # R07.2 server-side coverage
            pre, mac = an.server_login_mac_preimage(p)
            if pre is None:
                rep.ob('R07.2', 'server preamble located', False, '', w, sn)
                continue
            REQ = Sym('request')
            for names, ty in S.leaf_paths(s.body['locals'][4]['ty']):
                L = REQ
                for nm in names:
                    L = ('fld', L, nm)
                good = contains(pre, L)
                n_cov += int(good)
                rep.ob('R07.2', 'server preamble contains request leaf %s' % '.'.join(names), good, show(pre)[:500], w, sn)
            m = fields(msg)
            for nm, v in m.items():
                if v is not None and v[0] == 'adt' and 'Ke2Message' in v[1]:
                    for fn, fv in fields(v).items():
                        if app_args(fv, 'Mac') is not None:
                            continue
                        x = fv
                        if fv[0] == 'adt':
                            x = an.ser_pk(fields(fv).get('0'))
                        good = contains(pre, x)
                        n_cov += int(good)
                        rep.ob('R07.2', 'server preamble contains its own fresh value %s' % fn, good, show(x)[:200], w, sn)
                elif v is not None and v[0] == 'adt':
                    for fn, fv in fields(v).items():
                        xs = find_apps(fv, 'xor')
                        good = bool(xs) and contains(pre, xs[0])
                        n_cov += int(good)
                        rep.ob('R07.2', 'server preamble contains masked response part %s' % fn, good, show(fv)[:200], w, sn)
                else:
                    x = App('ser_elem', v) if (v is not None and v[0] == 'app' and v[1] == 'Eval') else v
                    good = contains(pre, x)
                    n_cov += int(good)
                    rep.ob('R07.2', 'server preamble contains response field %s' % nm, good, show(x)[:200], w, sn)
            # R07.3 keys expanded from Hash(preamble)
            state = fields(p.payload).get('state')
            hp = rfc.hash_(pre, P['Nh'])
            keys = subterms(state, lambda t: t[0] == 'app' and t[1] == 'Expand')
            tops = [k for k in keys if not any(k != o and contains(o, k) for o in keys)]
            good = bool(tops) and all(contains(k, hp) for k in tops)
            rep.ob('R07.3', 'server: session key and client-MAC key are expanded from Hash(preamble)', good, [show(k)[:120] for k in tops].__str__(), w, sn)
        # client side coverage (as C04 R04.1) + keys
        fin = api_summary(ctx, sn, 'clog_finish')
        w = where_of(fin)
        for p in fin.ok_paths:
            a = an.client_finish(p)
            if len(a['mac_ok']) < 2:
                rep.ob('R07.6', 'client accepts only through two MAC comparisons', False, '', w, sn)
                continue
            pre = an.hash_preimage(a['mac_ok'][-1][2])
            for root, idx in ((Sym('response'), 3),):
                for names, ty in S.leaf_paths(fin.body['locals'][idx]['ty']):
                    L = root
                    for nm in names:
                        L = ('fld', L, nm)
                    if L == a['mac_ok'][-1][3]:
                        continue
                    good = pre is not None and contains(pre, L)
                    n_cov += int(good)
                    rep.ob('R07.2', 'client preamble contains response leaf %s' % '.'.join(names), good, '', w, sn)
            sk = fields(p.payload).get('session_key')
            hp = rfc.hash_(pre, P['Nh']) if pre is not None else None
            rep.ob('R07.3', 'client: session key is expanded from Hash(preamble)', sk is not None and hp is not None and contains(sk, hp), show(sk)[:200], w, sn)
            rep.ob('R07.6', 'client accepts only through MAC comparisons over Hash(preamble)', a['mac_ok'][-1][2] == hp and not a['mac_failed'], '', w, sn)
        sf = api_summary(ctx, sn, 'slog_finish')
        for p in sf.ok_paths:
            rep.ob('R07.6', 'server accepts only through a MAC comparison', bool(mac_checks(p)) and not failed_mac_checks(p), '', where_of(sf), sn)
        # R07.4 state and message types own their data
        tys = set()
        for which, idxs in (('clog_finish', (1, 3)), ('slog_finish', (1, 2)), ('slog_start', (4,)), ('creg_finish', (1, 4)), ('sreg_start', (1, 2)), ('sreg_finish', (1,))):
            b = api_summary(ctx, sn, which).body
            for i in idxs:
                tys.add(b['locals'][i]['ty'])
        n_t = 0
        for ty in sorted(tys):
            if ty.startswith('&'):
                ty = ty[1:]
            for t in type_tree(S, ty):
                n_t += 1
                bad = [b for b in BAD_TY if (t.startswith(b) if b == '&' else b in t)]
                rep.ob('R07.4', 'state/message type tree of %s holds no reference or shared/interior-mutable pointer' % ty.split('<')[0], not bad,
                       'field type %s' % t, '', sn)
        rep.ob('R07.4', 'type trees enumerated', n_t >= 20, 'types visited: %d' % n_t, '', sn)
    ns = len(ctx.suite_names)
    rep.floor('R07.1', 'fresh values', n_fresh, ns * (3 + 8 * 3))
    rep.floor('R07.2', 'covered transcript items', n_cov, ns * 8 * (3 + 7 + 7))
    from rules import profile
    profile.check(ctx, rep, 'R07.P', ['clog_start', 'slog_start', 'clog_finish', 'slog_finish'])
    from rules import witness
    witness.check(ctx, rep, 'R07.W', ['WMoveServer', 'WMoveClient'])
    from rules import lclone
    lclone.check(ctx, rep, 'R07.C')
    return rep
