"""Structured views of the client finish steps and the server login start, extracted from event traces."""
from terms import *  # noqa
import rfc
from rules.common import *  # noqa


def okval(call):
    return ('fld', ('as', call, 'Ok'), '0')


def someval(v):
    return ('fld', ('as', v, 'Some'), '0')


def expands(path):
    """[(idx, prk, info, L)]"""
    return [(i, e[1], e[2], e[3]) for i, e in enumerate(path.events) if e[0] == 'expand']


def client_finish(path):
    """anatomy of ClientRegistration::finish / ClientLogin::finish on one path"""
    a = {}
    fin = path.calls('voprf::OprfClient::finalize')
    a['finalize_calls'] = [(i, e[2]) for i, e in fin]
    if fin:
        inp, state, ev = fin[0][1][2]
        a['oprf_input'] = inp
        a['oprf_state'] = state
        a['oprf_eval'] = ev
        a['o'] = App('Finalize', inp, state, ev)
    a['ksf_calls'] = [(i, e[2][0], e[2][1]) for i, e in path.calls('Ksf::hash')]
    ex = expands(path)
    for i, prk, info, L in ex:
        if info == Bytes(b'MaskingKey') and 'rp' not in a:
            a['rp'] = prk
            a['masking_key'] = App('Expand', prk, info, L)
            a['masking_key_idx'] = i
    for i, prk, info, L in ex:
        parts = cat_parts(info)
        if parts and parts[-1] == Bytes(b'CredentialResponsePad'):
            a['pad'] = App('Expand', prk, info, L)
            a['pad_key'] = prk
            a['pad_info'] = info
        for lab in (b'AuthKey', b'ExportKey', b'PrivateKey'):
            if parts and parts[-1] == Bytes(lab):
                a.setdefault('env_' + lab.decode(), []).append((i, prk, info, L))
    a['mac_ok'] = mac_checks(path)
    a['mac_failed'] = failed_mac_checks(path)
    a['dh'] = [(i, e[2]) for i, e in path.calls('KeGroup::diffie_hellman')]
    a['decode_pk'] = [(i, e[2][0]) for i, e in path.calls('KeGroup::deserialize_pk')]
    a['reflect'] = [(i, e) for i, e in enumerate(path.events) if e[0] == 'assume' and e[1][0] == 'app' and e[1][1] == 'ct_eq']
    return a


def hash_preimage(t):
    a = app_args(t, 'Hash')
    return a[0] if a else None


def transcript_of_mac_msg(msg):
    """the preamble (byte string) whose hash is MACed"""
    return hash_preimage(msg)
