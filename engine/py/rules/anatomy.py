"""Structured views of the client finish steps and the server login start, extracted from event traces."""
from terms import *  # noqa
import rfc
from rules.common import *  # noqa


def okval(call):
    return ('fld', ('as', call, 'Ok'), '0')


def someval(v):
    return ('fld', ('as', v, 'Some'), '0')


def expands(path):
    """[(idx, prk, info, L)]"""
    return [(i, e[1], e[2], e[3]) for i, e in enumerate(path.events) if e[0] == 'expand']


def client_finish(path):
    """anatomy of ClientRegistration::finish / ClientLogin::finish on one path"""
    a = {}
    fin = path.calls('voprf::OprfClient::finalize')
    a['finalize_calls'] = [(i, e[2]) for i, e in fin]
    if fin:
        inp, state, ev = fin[0][1][2]
        a['oprf_input'] = inp
        a['oprf_state'] = state
        a['oprf_eval'] = ev
        a['o'] = App('Finalize', inp, state, ev)
    a['ksf_calls'] = [(i, e[2][0], e[2][1]) for i, e in path.calls('Ksf::hash')]
    ex = expands(path)
    for i, prk, info, L in ex:
        if info == Bytes(b'MaskingKey') and 'rp' not in a:
            a['rp'] = prk
            a['masking_key'] = App('Expand', prk, info, L)
            a['masking_key_idx'] = i
    for i, prk, info, L in ex:
        parts = cat_parts(info)
        if parts and parts[-1] == Bytes(b'CredentialResponsePad'):
            a['pad'] = App('Expand', prk, info, L)
            a['pad_key'] = prk
            a['pad_info'] = info
        for lab in (b'AuthKey', b'ExportKey', b'PrivateKey'):
            if parts and parts[-1] == Bytes(lab):
                a.setdefault('env_' + lab.decode(), []).append((i, prk, info, L))
    a['mac_ok'] = mac_checks(path)
    a['mac_failed'] = failed_mac_checks(path)
    a['dh'] = [(i, e[2]) for i, e in path.calls('KeGroup::diffie_hellman')]
    a['decode_pk'] = [(i, e[2][0]) for i, e in path.calls('KeGroup::deserialize_pk')]
    a['reflect'] = [(i, e) for i, e in enumerate(path.events) if e[0] == 'assume' and e[1][0] == 'app' and e[1][1] == 'ct_eq']
    return a


def hash_preimage(t):
    a = app_args(t, 'Hash')
    return a[0] if a else None


def transcript_of_mac_msg(msg):
    """the preamble (byte string) whose hash is MACed"""
    return hash_preimage(msg)


# ---- encodings defined by the code's own public `serialize` functions ---------------------------------------
def ser(ctx, sn, type_path, value):
    """bytes of `value.serialize()` for a public message/state type (one path expected)"""
    s = ctx.summary(sn, type_path + '::serialize', params=[value])
    if len(s.paths) != 1:
        return None
    return s.paths[0].value


def ser_pk(x):
    """PublicKey(x).serialize() — PublicKey::serialize is KG::serialize_pk(self.0) (checked by C09 layout rule)"""
    return App('KeGroup::serialize_pk', x)


def strip_tail(t, n):
    """drop the last n bytes of a Cat whose trailing parts have known lengths"""
    parts = cat_parts(t)
    rem = n
    while parts and rem > 0:
        l = tlen(parts[-1])
        if l is None or l > rem:
            return None
        rem -= l
        parts.pop()
    return Cat(parts) if rem == 0 else None


def expected_preamble(ctx_term, id_u, ke1_bytes, id_s, response_bytes_without_mac):
    import rfc
    return Cat([Bytes(b'OPAQUEv1-'), rfc.lp(2, ctx_term), rfc.lp(2, id_u), ke1_bytes, rfc.lp(2, id_s), response_bytes_without_mac])


def ident_choice(path, opt_term, default_bytes):
    """effective identity on this path: the caller's value when the Option was assumed Some, else the default"""
    a = path.state.assume.get(opt_term)
    if a == 1:
        return someval(opt_term)
    if a == 0:
        return default_bytes
    return None


def client_login_preamble(ctx, sn, path, P):
    """RFC preamble instantiated with the client's view (ClientLogin::finish parameters), or None"""
    a = client_finish(path)
    if not a['decode_pk']:
        return None
    params = Sym('params')
    cx = ident_choice(path, ('fld', params, 'context'), Bytes(b''))
    if cx is None:
        return None
    pkstar = okval(App('KeGroup::deserialize_pk', a['decode_pk'][0][1]))
    # client static key: public key of the envelope-derived secret
    csk = None
    for i, args in a['dh']:
        if 'rp' in a and contains(args[1], a['rp']):
            csk = args[1]
    if csk is None:
        return None
    ids = ('fld', params, 'identifiers')
    id_u = ident_choice(path, ('fld', ids, 'client'), ser_pk(App('KeGroup::public_key', csk)))
    id_s = ident_choice(path, ('fld', ids, 'server'), ser_pk(pkstar))
    if id_u is None or id_s is None:
        return None
    fin = api_summary(ctx, sn, 'clog_finish')
    req_field = role_term(ctx, sn, fin, 1, Sym('self'), 'field:CredentialRequest')
    if req_field is None:
        return None
    req = ser(ctx, sn, DECODERS['CredentialRequest'], req_field)
    resp = ser(ctx, sn, DECODERS['CredentialResponse'], Sym('response'))
    if req is None or resp is None:
        return None
    resp_nomac = strip_tail(resp, P['Nm'])
    if resp_nomac is None:
        return None
    return expected_preamble(cx, id_u, req, id_s, resp_nomac)


def server_login_preamble(ctx, sn, path, P):
    """RFC preamble instantiated with the server's view (ServerLogin::start), or None"""
    params = Sym('params')
    cx = ident_choice(path, ('fld', params, 'context'), Bytes(b''))
    if cx is None:
        return None
    res = fields(path.payload)
    msg = res.get('message')
    if msg is None:
        return None
    file_assumed = path.state.assume.get(Sym('file'))
    # client static public key: the record's (or the dummy's) key = public key of DH slot 3
    dhs = [e[2] for _, e in path.calls('KeGroup::diffie_hellman')]
    req_pk = None
    static_sk = None
    client_pk = None
    eph = [d for d in dhs if find_apps(d[1], 'KeGroup::derive_auth_keypair')]
    for d in dhs:
        if d not in eph:
            static_sk = d[1]
            req_pk = d[0]
    for d in eph:
        if d[0] != req_pk:
            client_pk = d[0]
    if static_sk is None or client_pk is None:
        return None
    ids = ('fld', params, 'identifiers')
    id_u = ident_choice(path, ('fld', ids, 'client'), ser_pk(client_pk))
    id_s = ident_choice(path, ('fld', ids, 'server'), ser_pk(App('KeGroup::public_key', static_sk)))
    if id_u is None or id_s is None:
        return None
    req = ser(ctx, sn, DECODERS['CredentialRequest'], Sym('request'))
    resp = ser(ctx, sn, DECODERS['CredentialResponse'], msg)
    if req is None or resp is None:
        return None
    resp_nomac = strip_tail(resp, P['Nm'])
    if resp_nomac is None:
        return None
    return expected_preamble(cx, id_u, req, id_s, resp_nomac)


def server_login_mac_preimage(path):
    msg = fields(fields(path.payload).get('message'))
    for v in msg.values():
        if v is not None and v[0] == 'adt':
            for f in fields(v).values():
                a = app_args(f, 'Mac')
                if a is not None:
                    return hash_preimage(a[1]), a
    return None, None


def byte_strings(t):
    """every authenticated/derived-from byte string under a Hash / Mac / Expand / Extract node of t"""
    out = []
    for x in subterms(t, lambda x: x[0] == 'app' and x[1] in ('Hash', 'Mac', 'Expand', 'Extract')):
        if x[1] == 'Hash':
            out.append(('Hash input', x[2][0]))
        elif x[1] == 'Mac':
            out.append(('Mac input', x[2][1]))
        elif x[1] == 'Expand':
            out.append(('Expand info', x[2][1]))
        elif x[1] == 'Extract':
            out.append(('Extract ikm', x[2][1]))
    return out


def decodability(s):
    """unique decodability of a concatenation: every variable-length part is immediately preceded by I2OSP(len(part), w),
    or it is the only variable-length part.  returns (ok, widths, reason)"""
    parts = cat_parts(s)
    var = [i for i, p in enumerate(parts) if tlen(p) is None]
    widths = {}
    unpref = []
    for i in var:
        p = parts[i]
        pre = parts[i - 1] if i > 0 else None
        a = app_args(pre, 'I2OSP')
        if a is not None and a[0] == App('len', p) and a[1][0] == 'int':
            widths[i] = a[1][1]
            continue
        if app_args(p, 'I2OSP') is not None:
            continue  # the prefix itself is fixed-width
        unpref.append(i)
    real_var = [i for i in var if app_args(parts[i], 'I2OSP') is None]
    if len(unpref) == 0:
        return True, widths, ''
    if len(unpref) == 1 and len(real_var) == 1:
        return True, widths, 'single variable part'
    return False, widths, 'variable-length part(s) without length prefix: %s' % [show(parts[i])[:80] for i in unpref]


# dependency functions whose decoding behaviour (accepted set, canonicity) was reviewed (DESIGN 3.6).  A group decoder whose result is
# built with any other function is "canonicity not established".
REVIEWED_DECODER_FNS = (
    'curve25519_dalek::ristretto::CompressedRistretto::from_slice', 'curve25519_dalek::ristretto::CompressedRistretto::decompress',
    'curve25519_dalek::scalar::Scalar::from_canonical_bytes', 'curve25519_dalek::scalar::clamp_integer',
    'elliptic_curve::public_key::PublicKey::from_sec1_bytes', 'elliptic_curve::public_key::PublicKey::to_projective',
    'elliptic_curve::secret_key::SecretKey::from_slice', 'elliptic_curve::secret_key::SecretKey::to_nonzero_scalar',
    'From', 'core::ops::deref::Deref::deref',
)
REVIEWED_ENCODER_FNS = (
    'curve25519_dalek::montgomery::MontgomeryPoint::to_bytes', 'curve25519_dalek::ristretto::RistrettoPoint::compress',
    'curve25519_dalek::ristretto::CompressedRistretto::to_bytes', 'curve25519_dalek::scalar::Scalar::to_bytes',
    'elliptic_curve::sec1::ToEncodedPoint::to_encoded_point', 'sec1::point::EncodedPoint::as_bytes', 'From',
)

BYTE_OPS = ('idxwrite', 'splice', 'xor', 'BitAnd', 'BitOr', 'BitXor', 'Shl', 'Shr', 'Slice', 'SliceMut', 'index', 'repeat', 'Not', 'Add', 'Sub', 'Mul')


def group_codec_purity(ctx, rep, rule, sn):
    """the crate's KeGroup encoders/decoders are pure compositions of the dependency's encoder/decoder on the whole argument:
    no byte-level edit (masking, slicing, re-tagging) before or after — otherwise encode/decode stop being mutually inverse on bytes"""
    S = ctx.suite(sn)
    n = 0
    for name, pname in (('serialize_pk', 'pk'), ('serialize_sk', 'sk'), ('deserialize_pk', 'bytes'), ('deserialize_sk', 'bytes')):
        bs = [b for b in S.bodies.values() if b.get('impl_trait_dpath') == 'opaque_ke::key_exchange::group::KeGroup' and b.get('name') == name]
        if len(bs) != 1:
            rep.ob(rule, 'KeGroup::%s instance found' % name, False, 'instances=%d' % len(bs), '', sn)
            continue
        s = ctx.summary(sn, bs[0]['generic_path'], params=[Sym(pname)])
        w = where_of(s)
        for p in s.ok_paths:
            val = p.payload
            bad = subterms(val, lambda t: (t[0] == 'app' and t[1] in BYTE_OPS) or t[0] == 'cat' or (t[0] == 'bytes' and len(t[1]) > 0))
            uses = mentions(val, Sym(pname))
            # decoders: every dependency decoder is applied to the input itself
            partial = []
            if name.startswith('deserialize'):
                for e in p.events:
                    if e[0] == 'call' and e[2] and mentions(e[2][0], Sym(pname)) and e[2][0] != Sym(pname) and e[1] != 'call':
                        x = e[2][0]
                        if subterms(x, lambda t: t[0] == 'app' and t[1] in BYTE_OPS):
                            partial.append(show(x)[:80])
            # a decoder that *normalises* its input (e.g. clamping) is canonical only if it also tests that the normal form equals the input
            norm_guard = True
            if name.startswith('deserialize') and val is not None and val != Sym(pname):
                normalisers = subterms(val, lambda t: t[0] == 'app' and ('clamp' in t[1] or 'reduce' in t[1] or 'from_bytes_mod_order' in t[1]) and mentions(t, Sym(pname)))
                for nf in normalisers:
                    fixed = any(e[0] == 'assume' and e[2] == 1 and e[1][0] == 'app' and e[1][1] in ('eq', 'ct_eq') and nf in e[1][2] and Sym(pname) in e[1][2] for e in p.events)
                    norm_guard = norm_guard and fixed
            allowed = REVIEWED_DECODER_FNS if name.startswith('deserialize') else REVIEWED_ENCODER_FNS
            unknown = sorted(set(t[1] for t in subterms(val, lambda t: t[0] == 'app' and t[1] not in allowed and t[1] not in BYTE_OPS)))
            unknown_adt = [t[1] for t in subterms(val, lambda t: t[0] == 'adt' and not (t[1].endswith('MontgomeryPoint') and dict(t[3]).get('0') == Sym(pname)))]
            rep.ob(rule, 'KeGroup::%s is built only from reviewed dependency codec functions' % name, not unknown and not unknown_adt,
                   'result %s uses %s, whose accepted set / canonicity is not in the reviewed table (DESIGN 3.6): one value may get several encodings' % (
                       show(val)[:160], unknown + unknown_adt), w, sn)
            good = not bad and uses and not partial and norm_guard
            n += int(good)
            rep.ob(rule, 'KeGroup::%s is the dependency codec applied to the whole argument, without byte-level edits' % name, good,
                   'result %s ; byte-level operations: %s %s%s' % (show(val)[:200], [show(b)[:60] for b in bad[:3]], partial[:2],
                                                                    '' if norm_guard else ' ; the decoder normalises its input without testing that the normal form equals the input (several encodings of one value)'), w, sn,
                   sample='%s(%s) = %s' % (name, pname, show(val)[:120]))
    return n


REVIEWED_GROUP_OPS = ('mul', 'curve25519_dalek::montgomery::MontgomeryPoint::mul_clamped', 'curve25519_dalek::montgomery::MontgomeryPoint::mul_base_clamped',
                      'group::Group::generator', 'KeGroup::serialize_pk')


def group_dh_reviewed(ctx, rep, rule, sn):
    """the dependency equation DH(a, PK(b)) = DH(b, PK(a)) (DESIGN 3.2-7a) is assumed only for the reviewed scalar multiplications applied
    to the unmodified key arguments: public_key(sk) = base * sk and diffie_hellman(pk, sk) = encode(pk * sk)"""
    S = ctx.suite(sn)
    n = 0
    for name, ps in (('public_key', ['sk']), ('diffie_hellman', ['pk', 'sk'])):
        bs = [b for b in S.bodies.values() if b.get('impl_trait_dpath') == 'opaque_ke::key_exchange::group::KeGroup' and b.get('name') == name]
        if len(bs) != 1:
            rep.ob(rule, 'KeGroup::%s instance found' % name, False, 'instances=%d' % len(bs), '', sn)
            continue
        s = ctx.summary(sn, bs[0]['generic_path'], params=[Sym(x) for x in ps])
        w = where_of(s)
        rep.ob(rule, 'KeGroup::%s has a single straight-line path' % name, len(s.paths) == 1 and s.complete, 'paths=%d' % len(s.paths), w, sn)
        for p in s.paths:
            val = p.value
            apps = set(t[1] for t in subterms(val, lambda t: t[0] == 'app'))
            unknown = sorted(a for a in apps if a not in REVIEWED_GROUP_OPS)
            leaves = subterms(val, lambda t: t[0] in ('sym',))
            whole = all(mentions(val, Sym(x)) for x in ps) and not subterms(val, lambda t: t[0] == 'app' and t[1] in BYTE_OPS)
            muls = [t for t in subterms(val, lambda t: t[0] == 'app' and t[1] in REVIEWED_GROUP_OPS[:3])]
            direct = bool(muls) and all(all(a[0] in ('sym', 'unk') or (a[0] == 'app' and a[1] == 'group::Group::generator') for a in m[2]) for m in muls)
            good = not unknown and whole and direct
            n += int(good)
            rep.ob(rule, 'KeGroup::%s is a reviewed scalar multiplication of the unmodified key arguments' % name, good,
                   'computes %s%s' % (show(val)[:200], (' using unreviewed %s' % unknown) if unknown else ''), w, sn, sample='%s = %s' % (name, show(val)[:120]))
    return n


# dependency hash-to-scalar functions (RFC 9380 hash_to_field with expand_message_xmd, reduced into the scalar field) reviewed for DESIGN 3.6
REVIEWED_H2S = {
    'Group::hash_to_scalar': 'voprf::group::ristretto::Ristretto255',          # <voprf::Ristretto255 as voprf::Group>::hash_to_scalar::<H>
    'elliptic_curve::hash2curve::group_digest::GroupDigest::hash_to_scalar': None,   # <C as GroupDigest>::hash_to_scalar::<ExpandMsgXmd<H>>, C = the KE curve
}
OPRF_HASH_MARK = {'r255': 'OidSha512', 'p256': 'OidSha256', 'p384': 'OidSha384', 'p521': 'OidSha512'}


def _trailing_generics(path):
    """type arguments of the function itself in an instance path `...::name::<A, B>`"""
    if not path.endswith('>'):
        return None
    depth = 0
    for i in range(len(path) - 1, -1, -1):
        c = path[i]
        if c == '>':
            depth += 1
        elif c == '<':
            depth -= 1
            if depth == 0:
                return path[i + 1:-1] if path[:i].endswith('::') else None
    return None


def kegroup_h2s_reviewed(ctx, rep, rule, sn):
    """KeGroup::hash_to_scalar::<H>(input, dst) is the reviewed dependency HashToScalar (expand_message_xmd over H) applied to the
    unmodified (input, dst), H being the OPRF suite's hash; every Ok result is that value (DeriveDiffieHellmanKeyPair relies on it)"""
    S = ctx.suite(sn)
    P = suite_params(sn)
    n = 0
    bs = [b for b in S.bodies.values() if b.get('impl_trait_dpath') == 'opaque_ke::key_exchange::group::KeGroup' and b.get('name') == 'hash_to_scalar']
    if P['ke'] == 'c25519':
        return 0 if not bs else n       # Curve25519 overrides DeriveDiffieHellmanKeyPair (clamping, R09.7) and never hashes to a scalar
    if len(bs) != 1:
        rep.ob(rule, 'KeGroup::hash_to_scalar: exactly one instance is reached', False, 'instances=%d' % len(bs), '', sn)
        return 0
    b = bs[0]
    s = ctx.summary(sn, b['generic_path'], params=[Sym('input'), Sym('dst')])
    w = where_of(s)
    own_h = _trailing_generics(b['path'])
    rep.ob(rule, 'KeGroup::hash_to_scalar is instantiated with the OPRF suite\'s hash', own_h is not None and OPRF_HASH_MARK[P['oprf']] in own_h,
           'H = %s, expected %s' % (own_h, OPRF_HASH_MARK[P['oprf']]), w, sn)
    rep.ob(rule, 'KeGroup::hash_to_scalar explored completely with an Ok result', s.complete and bool(s.ok_paths), str(s.notes[:2]), w, sn)
    for p in s.ok_paths:
        v = p.payload
        inner = v[1][1] if v[0] == 'fld' and v[2] == '0' and v[1][0] == 'as' and v[1][2] == 'Ok' else None
        good = inner is not None and inner[0] == 'app' and inner[1] in REVIEWED_H2S and tuple(inner[2]) == (Sym('input'), Sym('dst'))
        rep.ob(rule, 'KeGroup::hash_to_scalar returns the reviewed dependency HashToScalar of (input, dst), unmodified and in this order', good,
               'returns %s' % show(v)[:200], w, sn, sample='hash_to_scalar(input, dst) = %s' % show(v)[:100])
        if not good:
            continue
        # the type arguments of the dependency call: expander XMD over the same H
        calls = [bb['term']['callee'] for bb in b['blocks'] if bb.get('term', {}).get('k') == 'call' and bb['term']['callee'].get('name') == 'hash_to_scalar']
        okc = False
        detail = 'no dependency call found'
        if len(calls) == 1 and own_h:
            c = calls[0]
            args = c.get('args', [])
            want_self = REVIEWED_H2S[inner[1]]
            self_ok = (args[:1] == [want_self]) if want_self else bool(args) and ('KeGroup for %s>' % args[0]) in b['path']
            h_ok = any(a == own_h or (a.endswith('ExpandMsgXmd<%s>' % own_h)) for a in args[1:])
            other_h = [a for a in args[1:] if a not in ("'_",) and not (a == own_h or a.endswith('ExpandMsgXmd<%s>' % own_h))]
            okc = self_ok and h_ok and not other_h
            detail = 'callee %s type arguments %s' % (c.get('dpath'), [a[-90:] for a in args])
        rep.ob(rule, 'KeGroup::hash_to_scalar: the dependency call uses expand_message_xmd over the same hash, on the key-exchange group itself', okc, detail, w, sn)
        n += int(okc)
    return n


def kegroup_zero_test_reviewed(ctx, rep, rule, sn):
    """KeGroup::is_zero_scalar(s) is a zero test of s itself (the non-zero filter of DeriveDiffieHellmanKeyPair)"""
    S = ctx.suite(sn)
    n = 0
    for b in S.bodies.values():
        if b.get('impl_trait_dpath') != 'opaque_ke::key_exchange::group::KeGroup' or b.get('name') != 'is_zero_scalar':
            continue
        s = ctx.summary(sn, b['generic_path'], params=[Sym('scalar')])
        w = where_of(s)
        good = len(s.paths) == 1 and s.complete
        val = s.paths[0].value if s.paths else None
        if good:
            good = False
            if val[0] == 'app' and val[1] == 'ff::Field::is_zero' and tuple(val[2]) == (Sym('scalar'),):
                good = True
            elif val[0] == 'app' and val[1] in ('ct_eq', 'eq') and len(val[2]) == 2 and Sym('scalar') in val[2]:
                other = [a for a in val[2] if a != Sym('scalar')]
                z = other[0] if other else None
                if z is not None and z[0] == 'app' and z[1].endswith('Scalar::to_bytes') and len(z[2]) == 1:
                    z = z[2][0]
                good = z is not None and z[0] == 'bytes' and len(z[1]) > 0 and not any(z[1])
        n += int(good)
        rep.ob(rule, 'KeGroup::is_zero_scalar compares the scalar itself with zero', good, 'computes %s' % (show(val)[:160] if val is not None else None), w, sn,
               sample='is_zero_scalar(s) = %s' % (show(val)[:100] if val is not None else None))
    return n


VGROUP_METHODS = ('hash_to_curve', 'hash_to_scalar', 'base_elem', 'identity_elem', 'serialize_elem', 'deserialize_elem', 'random_scalar',
                  'invert_scalar', 'is_zero_scalar', 'serialize_scalar', 'deserialize_scalar')


def vgroup_forwarding(ctx, rep, rule, only=None):
    """`impl voprf::Group for opaque_ke::Ristretto255` (the public forwarding layer for user-defined OPRF suites over the crate's group
    type): every method returns the same method of `voprf::Ristretto255` applied to its own arguments, unmodified and in order, with the
    same type arguments — so everything the dependency's decoders reject (identity, non-canonical, zero) stays rejected through it."""
    S = ctx.suite('vg:vgroup')
    n = 0
    seen = set()
    for b in S.bodies.values():
        if b.get('crate') != 'opaque_ke' or b.get('impl_trait_dpath') != 'voprf::group::Group':
            continue
        name = b.get('name')
        if only and name not in only:
            continue
        seen.add(name)
        ps = [Sym('arg%d' % i) for i in range(b.get('argc', 0))]
        s = ctx.summary('vg:vgroup', b['generic_path'], params=ps, select=b['path'])
        w = where_of(s)
        # the interpreter's own names for three voprf::Group methods it models
        alts = ('Group::' + name, {'identity_elem': 'identity_elem', 'serialize_elem': 'ser_elem', 'serialize_scalar': 'ser_scalar'}.get(name, ''))
        good = s.complete and len(s.paths) == 1 and any(s.paths[0].value == App(a, *ps) for a in alts if a)
        calls = [bb['term']['callee'] for bb in b['blocks'] if bb.get('term', {}).get('k') == 'call']
        own = _trailing_generics(b['path'])
        tgt = [c for c in calls if c.get('name') == name and c.get('trait_dpath') == 'voprf::group::Group']
        okc = len(calls) == 1 and len(tgt) == 1
        detail = 'returns %s' % (show(s.paths[0].value)[:160] if s.paths else s.notes[:2])
        if okc:
            args = tgt[0].get('args', [])
            self_ok = bool(args) and args[0].startswith('voprf::') and args[0].endswith('Ristretto255')
            gen_ok = [a for a in args[1:] if a != "'_"] == ([own] if own else [])
            okc = self_ok and gen_ok
            detail += ' ; callee type arguments %s' % [a[-80:] for a in args]
        else:
            detail += ' ; calls in the body: %s' % [c.get('dpath') for c in calls][:4]
        n += int(good and okc)
        rep.ob(rule, 'voprf::Group for opaque_ke::Ristretto255: %s forwards to voprf::Ristretto255::%s on its own arguments' % (name, name), good and okc,
               detail, w, None, sample='%s(args) = <voprf::Ristretto255 as Group>::%s(args)' % (name, name))
    want = set(only or VGROUP_METHODS)
    rep.ob(rule, 'voprf::Group for opaque_ke::Ristretto255: all forwarding methods found', seen >= want, 'missing: %s' % sorted(want - seen), '', None)
    rep.floor(rule, 'forwarding methods reviewed', n, len(want))
    return n
