"""C19 — key-exchange group operations obey their laws: the structural clauses (DESIGN section 5, C19).

What is decided is the shape of opaque-ke's own code around the dependency's arithmetic, not the arithmetic."""
import core
from terms import *  # noqa
from rules.common import *  # noqa
from rules import anatomy as an

EXPLANATION = (
    "Term analysis over monomorphic production MIR of the three KeGroup impls (ristretto255, the blanket impl for the NIST curves instantiated "
    "for P-256/P-384/P-521, Curve25519) and of the KeyPair / PrivateKey / PublicKey wrappers, per suite. Decided: (1) public_key(sk) is one "
    "reviewed scalar multiplication of the group's generator by the unmodified key and diffie_hellman(pk, sk) is the encoding of one reviewed "
    "scalar multiplication of the unmodified arguments, both from the same arithmetic family (plain/plain or clamped/clamped) - under the "
    "dependency equation (a*(b*G) = b*(a*G)) this is what makes both sides derive the same bytes; (2) every wrapper hands the payloads through "
    "unmodified: PrivateKey::public_key = PublicKey(KeGroup::public_key(sk)), PrivateKey::diffie_hellman = KeGroup::diffie_hellman(pk, sk), and "
    "every KeyPair constructor pairs a private key with KeGroup::public_key of that same key; (3) the four codecs of each group are the "
    "dependency codec applied to the whole argument with no byte-level edit, encoder and decoder belong to the same reviewed inverse pair, "
    "decoders that normalise test the fixed point, and the wrappers' serialize/deserialize are those codecs; (4) seeded derivation computes "
    "the RFC's DeriveDiffieHellmanKeyPair formula (hash-to-scalar input, DST, counter range; clamp(seed) for Curve25519) with the reviewed "
    "HashToScalar over the OPRF suite's hash, returns Ok only for a result that passed the zero test, and the zero test is a test of that "
    "result. NOT decided: that the dependencies' scalar multiplication commutes, that their codecs are inverse on all values, that "
    "hash-to-scalar is RFC 9380's - the numerical content of C19 (DESIGN section 5 C19)."
)
ASSUMPTIONS = ["scalar multiplication of the reviewed dependency functions commutes: a*(b*G) = b*(a*G), clamp-then-multiply included (numerical; assumed)",
               "the reviewed dependency encoder/decoder pairs are mutually inverse on valid values (numerical; assumed, DESIGN 3.6)",
               "the dependency hash_to_scalar implements RFC 9380 hash_to_field (assumed, pinned by Cargo.lock)", "model table (DESIGN 3.5)"]

KEG = 'opaque_ke::key_exchange::group::KeGroup'
PUBKEY = 'opaque_ke::keypair::PublicKey'
PRIVKEY = 'opaque_ke::keypair::PrivateKey'
KEYPAIR = 'opaque_ke::keypair::KeyPair'

SK_TRAIT = '<opaque_ke::keypair::PrivateKey<KG> as opaque_ke::keypair::SecretKey<KG>>::'
WRAPPERS = {
    'PrivateKey::public_key': (SK_TRAIT + 'public_key', ['self']),
    'PrivateKey::diffie_hellman': (SK_TRAIT + 'diffie_hellman', ['self', 'pk']),
    'PrivateKey::serialize': (SK_TRAIT + 'serialize', ['self']),
    'PrivateKey::deserialize': (SK_TRAIT + 'deserialize', ['input']),
    'PublicKey::serialize': ('opaque_ke::keypair::PublicKey::<KG>::serialize', ['self']),
    'PublicKey::deserialize': ('opaque_ke::keypair::PublicKey::<KG>::deserialize', ['input']),
    'KeyPair::from_private_key': ('opaque_ke::keypair::KeyPair::<KG, S>::from_private_key', ['private_key']),
    'KeyPair::from_private_key_slice': ('opaque_ke::keypair::KeyPair::<KG, S>::from_private_key_slice', ['input']),
    'KeyPair::generate_random': ('opaque_ke::keypair::KeyPair::<KG>::generate_random', ['rng']),
}

# arithmetic family of each reviewed multiplication: a base multiplication and a variable-base multiplication commute only within a family
FAMILY = {
    'mul': 'plain',
    'curve25519_dalek::montgomery::MontgomeryPoint::mul_clamped': 'clamped',
    'curve25519_dalek::montgomery::MontgomeryPoint::mul_base_clamped': 'clamped',
    'curve25519_dalek::ristretto::RistrettoPoint::mul_base': 'plain',
    'curve25519_dalek::montgomery::MontgomeryPoint::mul_base': 'plain',
}
BASE_MULS = ('curve25519_dalek::montgomery::MontgomeryPoint::mul_base_clamped', 'curve25519_dalek::ristretto::RistrettoPoint::mul_base',
             'curve25519_dalek::montgomery::MontgomeryPoint::mul_base')

# reviewed inverse pairs: a marker function of the encoder -> marker functions one of which the decoder's accepted value must be built from
CODEC_PAIRS = {
    'pk': {
        'curve25519_dalek::ristretto::RistrettoPoint::compress': ('curve25519_dalek::ristretto::CompressedRistretto::decompress',),
        'curve25519_dalek::montgomery::MontgomeryPoint::to_bytes': ('adt:curve25519_dalek::montgomery::MontgomeryPoint',),
        'elliptic_curve::sec1::ToEncodedPoint::to_encoded_point': ('elliptic_curve::public_key::PublicKey::from_sec1_bytes',
                                                                    'elliptic_curve::sec1::FromEncodedPoint::from_encoded_point'),
    },
    'sk': {
        'curve25519_dalek::scalar::Scalar::to_bytes': ('curve25519_dalek::scalar::Scalar::from_canonical_bytes',),
        '<identity>': ('curve25519_dalek::scalar::clamp_integer', 'elliptic_curve::secret_key::SecretKey::from_slice',
                       'elliptic_curve::scalar::nonzero::NonZeroScalar::from_repr', 'ff::PrimeField::from_repr'),
    },
}


def is_generator(t):
    """the group's fixed generator: the dependency's generator function or basepoint constant"""
    if t[0] == 'app' and t[1] == 'group::Group::generator' and not t[2]:
        return True
    if t[0] == 'unk' and 'BASEPOINT' in str(t[1]):
        return True
    return False


def _is_ident(x):
    return x[0] == 'app' and x[1].endswith('Identity::identity')


def _is_zero(x):
    return (x[0] == 'bytes' and len(x[1]) >= 16 and not any(x[1])) or (
        x[0] == 'app' and x[1].endswith('to_bytes') and x[2] and x[2][0][0] == 'bytes' and x[2][0][1] and not any(x[2][0][1])) or (
        x[0] == 'unk' and str(x[1]).endswith('::ZERO'))


def decoder_test_class(t):
    """the kind of test a key decoder may branch on; None = a test outside the reviewed inverse pair"""
    B = Sym('bytes')
    if t == App('first', B) or t == App('index', B, Int(0)):
        return 'tag'
    if t[0] == 'app' and len(t[2]) == 2 and t[1] in ('eq', 'ct_eq', 'Ne', 'Eq', 'ne'):
        a, b = t[2]
        for x, y in ((a, b), (b, a)):
            if (_is_ident(x) or _is_zero(x)) and mentions(y, B):
                return 'filter'
            if x[0] == 'app' and 'clamp_integer' in x[1] and tuple(x[2]) == (B,) and y == B:
                return 'fixed-point'
    if t[0] == 'app' and 'is_small_order' in t[1] or t[0] == 'app' and 'is_torsion_free' in t[1] or t[0] == 'app' and t[1] == 'ff::Field::is_zero':
        return 'filter'
    # tests of the length only
    stripped = rewrite(t, lambda u: Sym('LEN') if (u[0] == 'app' and u[1] == 'len' and tuple(u[2]) == (B,)) else u)
    if stripped != t and not mentions(stripped, B):
        return 'length'
    return None


def keg_body(S, name, default=False):
    return [b for b in S.bodies.values() if b.get('name') == name and (b.get('impl_trait_dpath') == KEG or (default and b.get('trait_default')))]


def newtype_payload(t, dpath):
    """x for Newtype(x)"""
    if t is not None and t[0] == 'adt' and t[1] == dpath and len(t[3]) == 1:
        return t[3][0][1]
    return None


def ok_payload(t):
    if t is not None and t[0] == 'adt' and t[1].endswith('Result') and t[2] == 'Ok':
        return dict(t[3]).get('0')
    return None


def run(ctx):
    rep = core.Report('C19', ctx.tier, EXPLANATION, ASSUMPTIONS)
    n_dh = n_pair = n_wrap = n_codec = n_cpair = n_rows = n_filt = n_rand = n_rej = 0
    groups = {}

    def row(rule, what, got, want, w, sn):
        nonlocal n_rows
        good = got is not None and want is not None and got == want
        n_rows += int(good)
        rep.ob(rule, what, good, 'got      %s\nexpected %s' % (show(got)[:600], show(want)[:600]), w, sn, sample='%s = %s' % (what, show(got)[:200]))
        return good

    for sn in ctx.suite_names:
        P = suite_params(sn)
        S = ctx.suite(sn)
        ke = P['ke']
        groups.setdefault(ke, []).append(sn)
        # ---- R19.1 public_key / diffie_hellman: reviewed multiplications of the unmodified arguments, generator base, one family
        n_dh += an.group_dh_reviewed(ctx, rep, 'R19.1', sn)
        fam = {}
        for name, ps in (('public_key', ['sk']), ('diffie_hellman', ['pk', 'sk'])):
            bs = keg_body(S, name)
            if len(bs) != 1:
                continue        # reported by group_dh_reviewed
            s = ctx.summary(sn, bs[0]['generic_path'], params=[Sym(x) for x in ps])
            w = where_of(s)
            for p in s.paths:
                muls = subterms(p.value, lambda t: t[0] == 'app' and t[1] in FAMILY)
                good = len(muls) == 1
                detail = 'computes %s' % show(p.value)[:200]
                if good:
                    m = muls[0]
                    fam[name] = FAMILY[m[1]]
                    args = tuple(m[2])
                    if name == 'public_key':
                        if m[1] in BASE_MULS:
                            good = args == (Sym('sk'),)
                        else:
                            good = len(args) == 2 and Sym('sk') in args and any(is_generator(a) for a in args)
                        rep.ob('R19.1', 'KeGroup::public_key(sk) = generator * sk: one multiplication, of the group\'s generator, by the key itself', good and p.value == m,
                               detail, w, sn, sample='public_key(sk) = %s' % show(p.value)[:120])
                        n_pair += int(good and p.value == m)
                    else:
                        good = set(args) == {Sym('pk'), Sym('sk')} and len(args) == 2
                        enc = p.value == App('KeGroup::serialize_pk', m)
                        rep.ob('R19.1', 'KeGroup::diffie_hellman(pk, sk) = serialize_pk(pk * sk): one multiplication of the two arguments themselves, encoded by the group\'s own public-key encoder',
                               good and enc, detail, w, sn, sample='diffie_hellman(pk, sk) = %s' % show(p.value)[:120])
                        n_pair += int(good and enc)
                else:
                    rep.ob('R19.1', 'KeGroup::%s contains exactly one reviewed multiplication' % name, False, detail + ' ; multiplications found: %d' % len(muls), w, sn)
        rep.ob('R19.1', 'public_key and diffie_hellman multiply in the same arithmetic family (both plain or both clamped), so that a*(b*G) = b*(a*G) applies',
               len(fam) == 2 and fam['public_key'] == fam['diffie_hellman'], 'families: %s' % fam, '', sn)
        n_pair += int(len(fam) == 2 and fam['public_key'] == fam['diffie_hellman'])

        # ---- R19.2 wrappers hand payloads through and pair a private key with its own public key
        summ = {}
        for wname, (gp, ps) in WRAPPERS.items():
            try:
                summ[wname] = ctx.summary(sn, gp, params=[Sym(x) for x in ps])
            except KeyError as e:
                rep.ob('R19.2', '%s: body found' % wname, False, str(e), '', sn)
        def single(wname, want, what):
            nonlocal n_wrap
            s = summ.get(wname)
            if s is None:
                return
            good = s.complete and len(s.paths) == 1 and s.paths[0].value == want
            n_wrap += int(good)
            rep.ob('R19.2', what, good, 'paths %d ; computes %s ; expected %s' % (len(s.paths), [show(p.value)[:200] for p in s.paths[:2]], show(want)[:200]),
                   where_of(s), sn, sample='%s = %s' % (wname, show(s.paths[0].value)[:140] if s.paths else None))
        self0 = ('fld', Sym('self'), '0')
        Ok = lambda x: Adt('core::result::Result', 'Ok', [('0', x)])
        PK = lambda x: Adt(PUBKEY, 'PublicKey', [('0', x)])
        SK = lambda x: Adt(PRIVKEY, 'PrivateKey', [('0', x)])
        single('PrivateKey::public_key', Ok(PK(App('KeGroup::public_key', self0))),
               'PrivateKey::public_key = Ok(PublicKey(KeGroup::public_key(own payload))), on its only path')
        single('PrivateKey::diffie_hellman', Ok(App('KeGroup::diffie_hellman', ('fld', Sym('pk'), '0'), self0)),
               'PrivateKey::diffie_hellman(pk) = Ok(KeGroup::diffie_hellman(pk payload, own payload)), on its only path')
        single('PrivateKey::serialize', App('KeGroup::serialize_sk', self0), 'PrivateKey::serialize = KeGroup::serialize_sk(own payload)')
        single('PublicKey::serialize', App('KeGroup::serialize_pk', self0), 'PublicKey::serialize = KeGroup::serialize_pk(own payload)')
        for wname, dec, nt in (('PrivateKey::deserialize', 'KeGroup::deserialize_sk', SK), ('PublicKey::deserialize', 'KeGroup::deserialize_pk', PK)):
            s = summ.get(wname)
            if s is None:
                continue
            call = App(dec, Sym('input'))
            oks = [p for p in s.paths if p.outcome == 'Ok']
            good = s.complete and len(oks) == 1 and oks[0].value == Ok(nt(an.okval(call))) and len(s.paths) == 2 and all(
                contains(p.value, ('as', call, 'Err')) for p in s.paths if p.outcome != 'Ok')
            n_wrap += int(good)
            rep.ob('R19.2', '%s(input) = %s(input) wrapped in the newtype: Ok exactly when the group decoder accepts, with its value' % (wname, dec), good,
                   'paths: %s' % [(p.outcome, show(p.value)[:160]) for p in s.paths[:3]], where_of(s), sn)
        # KeyPair constructors: exactly two fields; one is PublicKey(KeGroup::public_key(x)), the other carries that same x
        for wname in ('KeyPair::from_private_key', 'KeyPair::from_private_key_slice', 'KeyPair::generate_random'):
            s = summ.get(wname)
            if s is None:
                continue
            vals = [(p, ok_payload(p.value) if p.outcome == 'Ok' else (p.value if wname.endswith('generate_random') else None)) for p in s.paths]
            made = [(p, v) for p, v in vals if v is not None and v[0] == 'adt' and v[1] == KEYPAIR]
            rep.ob('R19.2', '%s: explored completely and constructs a key pair' % wname, s.complete and bool(made), 'paths %d notes %s' % (len(s.paths), s.notes[:2]), where_of(s), sn)
            for p, v in made:
                fs = [x for _, x in v[3]]
                pks = [newtype_payload(x, PUBKEY) for x in fs if newtype_payload(x, PUBKEY) is not None]
                others = [x for x in fs if newtype_payload(x, PUBKEY) is None]
                good = len(fs) == 2 and len(pks) == 1 and len(others) == 1
                skx = None
                if good:
                    skx = newtype_payload(others[0], PRIVKEY)
                    if skx is None:
                        skx = ('fld', others[0], '0')       # the private key is a parameter of type S = PrivateKey: its payload is field 0
                    good = pks[0] == App('KeGroup::public_key', skx)
                src_ok = True
                if good and wname == 'KeyPair::from_private_key':
                    src_ok = others[0] == Sym('private_key')
                if good and wname == 'KeyPair::from_private_key_slice':
                    src_ok = skx == an.okval(App('KeGroup::deserialize_sk', Sym('input')))
                if good and wname == 'KeyPair::generate_random':
                    d = skx[1][1] if skx[0] == 'fld' and skx[1][0] == 'as' else None
                    src_ok = d is not None and d[0] == 'app' and d[1] == 'KeGroup::derive_auth_keypair' and len(d[2]) == 1 and is_rng_draw(d[2][0]) \
                        and skx == an.okval(d) and d[2][0][2][2] == Int(P['Nsk'])
                n_wrap += int(good and src_ok)
                rep.ob('R19.2', '%s: the public half is KeGroup::public_key of the private half it is stored with' % wname, good,
                       'constructs %s' % show(v)[:300], where_of(s), sn, sample='%s -> %s' % (wname, show(v)[:160]))
                what = {'KeyPair::from_private_key': 'the private half is the argument itself',
                        'KeyPair::from_private_key_slice': 'the private half is exactly what KeGroup::deserialize_sk(input) accepted',
                        'KeyPair::generate_random': 'the private half is DeriveDiffieHellmanKeyPair of one fresh draw of Nsk bytes'}[wname]
                rep.ob('R19.2', '%s: %s' % (wname, what), good and src_ok, 'constructs %s' % show(v)[:300], where_of(s), sn)

        # ---- R19.3 codecs: dependency codec on the whole argument; encoder and decoder from the same reviewed inverse pair
        n_codec += an.group_codec_purity(ctx, rep, 'R19.3', sn)
        for kind, ename, dname, esym in (('pk', 'serialize_pk', 'deserialize_pk', 'pk'), ('sk', 'serialize_sk', 'deserialize_sk', 'sk')):
            eb, db = keg_body(S, ename), keg_body(S, dname)
            if len(eb) != 1 or len(db) != 1:
                continue        # reported by group_codec_purity
            es = ctx.summary(sn, eb[0]['generic_path'], params=[Sym(esym)])
            ds = ctx.summary(sn, db[0]['generic_path'], params=[Sym('bytes')])
            ev = es.paths[0].value if len(es.paths) == 1 else None
            marks = [m for m in CODEC_PAIRS[kind] if m != '<identity>' and ev is not None and find_apps(ev, m)]
            if ev == Sym(esym) or (ev is not None and ev[0] == 'app' and ev[1] == 'From' and ev[2] and ev[2][0] == Sym(esym)):
                marks = ['<identity>']
            good = len(marks) == 1
            detail = 'encoder computes %s' % (show(ev)[:160] if ev is not None else None)
            if good:
                want = CODEC_PAIRS[kind][marks[0]]
                for p in ds.ok_paths:
                    v = p.payload
                    if marks[0] == '<identity>' and not subterms(v, lambda t: t[0] == 'app' and t[1] not in ('Slice', 'try_into_array')) and mentions(v, Sym('bytes')) and any(
                            e[0] == 'assume' and e[2] == 1 and decoder_test_class(e[1]) == 'fixed-point' for e in p.events):
                        # the decoder hands back the input itself after testing that normalising it changes nothing
                        detail += ' ; decoder accepts %s (a fixed point of the normaliser)' % show(v)[:80]
                        continue
                    hit = any((w.startswith('adt:') and subterms(v, lambda t: t[0] == 'adt' and t[1] == w[4:])) or (not w.startswith('adt:') and find_apps(v, w)) for w in want)
                    good = good and hit
                    detail += ' ; decoder accepts %s' % show(v)[:160]
                good = good and bool(ds.ok_paths)
                # compressed SEC1 form on both sides (the decoder's tag test admits 02/03 only)
                if marks[0].endswith('to_encoded_point'):
                    te = find_apps(ev, marks[0])[0]
                    good = good and len(te[2]) == 2 and te[2][1] == Int(1)
            n_cpair += int(good)
            rep.ob('R19.3', 'KeGroup::%s and KeGroup::%s belong to one reviewed inverse pair of dependency codecs' % (ename, dname), good, detail, where_of(es), sn)

        # ---- R19.3 (cont.) a decoder refuses nothing that its reviewed inverse pair accepts: every test it branches on is the dependency
        #      decoder's own outcome, a length/tag test, the fixed-point test of a normaliser, or the required zero / identity / small-order filter
        for dname in ('deserialize_pk', 'deserialize_sk'):
            db = keg_body(S, dname)
            if len(db) != 1:
                continue
            ds = ctx.summary(sn, db[0]['generic_path'], params=[Sym('bytes')])
            w = where_of(ds)
            unknown = []
            tags_ok = set()
            for p in ds.paths + ds.diverged:
                for e in p.events:
                    if e[0] == 'assume':
                        c = decoder_test_class(e[1])
                        if c is None:
                            unknown.append('branches on %s' % show(e[1])[:140])
                        if c == 'tag' and p.outcome == 'Ok':
                            tags_ok.add(e[2])
                    elif e[0] == 'outcome':
                        f = e[1]
                        if not (f[0] == 'app' and (f[1] in an.REVIEWED_DECODER_FNS or f[1] in ('try_into_array', 'nonempty', 'From')) and mentions(f, Sym('bytes'))):
                            unknown.append('depends on the outcome of %s' % show(f)[:140])
            unknown = sorted(set(unknown))
            good = not unknown and ds.complete
            n_rej += int(good)
            rep.ob('R19.3', 'KeGroup::%s refuses only what the reviewed dependency decoder, the length/tag test or the required filter refuses' % dname, good,
                   '%s (a valid key whose encoding fails this test no longer round-trips)' % '; '.join(unknown[:4]) if unknown else str(ds.notes[:2]), w, sn)
            if dname == 'deserialize_pk' and ke in ('p256', 'p384', 'p521'):
                rep.ob('R19.3', 'KeGroup::deserialize_pk (NIST): both compressed tags 0x02 and 0x03 reach an Ok path', tags_ok >= {2, 3}, 'tags with an Ok path: %s' % sorted(tags_ok), w, sn)

        # ---- R19.5 random_sk: a reviewed sampler on the caller's generator, returned only after the zero test (where the sampler can return zero)
        bs = keg_body(S, 'random_sk')
        if len(bs) != 1:
            rep.ob('R19.5', 'KeGroup::random_sk instance found', False, 'instances=%d' % len(bs), '', sn)
        else:
            s = ctx.summary(sn, bs[0]['generic_path'], params=[Sym('rng')], select=bs[0]['path'])
            w = where_of(s)
            rep.ob('R19.5', 'KeGroup::random_sk returns on some path', bool(s.paths), str(s.notes[:2]), w, sn)
            allgood = bool(s.paths)
            seen = set()
            for p in s.paths:
                v = p.value
                if v in seen:
                    continue
                seen.add(v)
                nz = any(e[0] == 'assume' and e[2] == 0 and e[1][0] == 'app' and e[1][1] in ('eq', 'ct_eq', 'Eq') and v in e[1][2] and any(
                    _is_zero(x) or (x[0] == 'bytes' and x[1] and not any(x[1])) for x in e[1][2]) for e in p.events) or any(
                    e[0] == 'assume' and e[2] == 1 and e[1][0] == 'app' and e[1][1] in ('ne', 'Ne') and v in e[1][2] and any(_is_zero(x) for x in e[1][2]) for e in p.events)
                good = False
                if v[0] == 'app' and v[1] == 'curve25519_dalek::scalar::Scalar::random' and tuple(v[2]) == (Sym('rng'),):
                    good = nz
                elif v[0] == 'app' and v[1] == 'curve25519_dalek::scalar::clamp_integer' and len(v[2]) == 1 and is_rng_draw(v[2][0]) and v[2][0][2][2] == Int(32):
                    good = True        # clamping sets bit 254: the result is never zero, with or without a test
                elif v == App('elliptic_curve::secret_key::SecretKey::to_nonzero_scalar', App('elliptic_curve::secret_key::SecretKey::random', Sym('rng'))):
                    good = True
                elif v[0] == 'app' and v[1] == 'elliptic_curve::scalar::nonzero::NonZeroScalar::random' and tuple(v[2]) == (Sym('rng'),):
                    good = True
                allgood = allgood and good
                if not good:
                    rep.ob('R19.5', 'KeGroup::random_sk returns a reviewed sampler\'s output on the caller\'s generator, after a zero test where the sampler can return zero', False,
                           'returns %s ; zero test on the path: %s' % (show(v)[:200], nz), w, sn)
            n_rand += int(allgood)
            if allgood:
                rep.ob('R19.5', 'KeGroup::random_sk returns a reviewed sampler\'s output on the caller\'s generator, after a zero test where the sampler can return zero', True, '', w, sn,
                       sample='random_sk(rng) = %s' % show(s.paths[0].value)[:120])

        # ---- R19.4 seeded derivation
        from rules import c09, c11
        c09.check_derive_dh(ctx, rep, 'R19.4', sn, row)
        n_filt += c11.group_filters(ctx, rep, 'R19.4', sn, names=('deserialize_sk', 'derive_auth_keypair'))
        if ke == 'c25519':
            bs = keg_body(S, 'derive_auth_keypair', default=True)
            if len(bs) == 1:
                d = ctx.summary(sn, bs[0]['generic_path'], params=[Sym('seed')])
                rep.ob('R19.4', 'DeriveDiffieHellmanKeyPair (Curve25519) is total: a single path, returning Ok(clamp(seed)) for every seed (clamping never yields zero)',
                       d.complete and len(d.paths) == 1 and d.paths[0].outcome == 'Ok', 'paths: %s' % [(p.outcome, show(p.value)[:100]) for p in d.paths[:4]], where_of(d), sn)
        an.kegroup_h2s_reviewed(ctx, rep, 'R19.4', sn)
        an.kegroup_zero_test_reviewed(ctx, rep, 'R19.4', sn)

    ns = len(ctx.suite_names)
    rep.ob('R19.0', 'all five key-exchange groups are among the analysed suites', set(groups) >= {'r255', 'p256', 'p384', 'p521', 'c25519'}, str(sorted(groups)), '', None)
    rep.floor('R19.1', 'reviewed public_key / diffie_hellman bodies', n_dh, 2 * ns)
    rep.floor('R19.1', 'generator / argument / family obligations established', n_pair, 3 * ns)
    rep.floor('R19.2', 'wrapper obligations established', n_wrap, 9 * ns)
    rep.floor('R19.3', 'pure codec functions', n_codec, 4 * ns)
    rep.floor('R19.3', 'encoder/decoder pairs matched', n_cpair, 2 * ns)
    rep.floor('R19.3', 'decoders without extra rejections', n_rej, 2 * ns)
    rep.floor('R19.4', 'derivation formula rows matched', n_rows, ns)
    rep.floor('R19.4', 'filters established', n_filt, 2 * ns)
    rep.floor('R19.5', 'random_sk bodies reviewed', n_rand, ns)
    from rules import profile
    per_suite_fns = list(WRAPPERS)
    API_BACKUP = dict((k, API.get(k)) for k in per_suite_fns)
    try:
        for k, (gp, ps) in WRAPPERS.items():
            API[k] = (gp, ps)
        profile.check(ctx, rep, 'R19.P', per_suite_fns)
    finally:
        for k, v in API_BACKUP.items():
            if v is None:
                API.pop(k, None)
            else:
                API[k] = v
    # the group functions themselves, in the release and min-features configurations
    for sn in ctx.suite_names:
        S = ctx.suite(sn)
        for name in ('public_key', 'diffie_hellman', 'serialize_pk', 'deserialize_pk', 'serialize_sk', 'deserialize_sk', 'derive_auth_keypair'):
            bs = keg_body(S, name, default=True)
            if len(bs) == 1:
                profile.check(ctx, rep, 'R19.P', [bs[0]['generic_path']], suites=[sn])
    from rules import lclone
    lclone.check(ctx, rep, 'R19.C')
    return rep
