"""C08 — unregistered users are indistinguishable from registered ones (DESIGN section 5, C08)."""
import core
import rfc
from terms import *  # noqa
from rules.common import *  # noqa
from rules import anatomy as an

EXPLANATION = (
    "Two-run comparison on the summary of ServerLogin::start (monomorphic MIR, per suite): the Ok return states reached with password_file = "
    "Some(record) and = None are unified term-by-term, treating the record's leaves as variables and renumbering RNG draws; unification must "
    "succeed (the discriminant influences nothing but the choice of record) and must bind the masking key to a fresh RNG draw, the envelope to "
    "zero bytes and the client key to a field of the server setup that is not its real public key. The evaluation element must be "
    "Eval(key(DeriveKeyPair(Expand(seed, cred_id||\"OprfKey\"))), request element) and mention no RNG draw, record or static key. "
    "Response and state lengths are types. The setup's fake key and seed are RNG draws of ServerSetup::new_with_key."
)
ASSUMPTIONS = ["statistical indistinguishability of the values is the RNG's/PRF's job (not decided)", "model table (DESIGN 3.5)"]


def root_of(t):
    while t is not None and t[0] == 'fld':
        t = t[1]
    return t


class Unifier:
    def __init__(self, var_root):
        self.var_root = var_root
        self.bind = {}
        self.rmap = {}
        self.fail = None

    def is_var(self, t):
        if t is None or t[0] != 'fld' or t == self.var_root:
            return False
        while t is not None and t[0] == 'fld':
            t = t[1]
            if t == self.var_root:
                return True
        return False

    def u(self, a, b, path=''):
        if self.fail:
            return False
        if self.is_var(a):
            if a in self.bind:
                if self.bind[a] != b:
                    self.fail = 'record leaf %s bound to two different terms: %s / %s' % (show(a), show(self.bind[a])[:120], show(b)[:120])
                    return False
                return True
            self.bind[a] = b
            return True
        if a is None or b is None:
            if a != b:
                self.fail = '%s: %s vs %s' % (path, show(a), show(b))
            return a == b
        if a[0] == 'app' and a[1] == 'Rng' and b[0] == 'app' and b[1] == 'Rng' and a[2][0] == b[2][0] and a[2][2:] == b[2][2:]:
            ia, ib = a[2][1], b[2][1]
            if ia in self.rmap:
                if self.rmap[ia] != ib:
                    self.fail = '%s: RNG draw %s maps to both %s and %s' % (path, show(ia), show(self.rmap[ia]), show(ib))
                    return False
                return True
            if ib in self.rmap.values():
                self.fail = '%s: two draws of the registered run map to draw %s of the unregistered run' % (path, show(ib))
                return False
            self.rmap[ia] = ib
            return True
        if a[0] != b[0]:
            self.fail = '%s: %s vs %s' % (path, show(a)[:160], show(b)[:160])
            return False
        k = a[0]
        if k in ('int', 'bytes', 'sym', 'unit', 'unk', 'zero'):
            if a != b:
                self.fail = '%s: %s vs %s' % (path, show(a)[:160], show(b)[:160])
            return a == b
        if k in ('fld', 'as'):
            if a[2] != b[2]:
                self.fail = '%s: %s vs %s' % (path, show(a)[:160], show(b)[:160])
                return False
            return self.u(a[1], b[1], path)
        if k == 'app':
            if a[1] != b[1] or len(a[2]) != len(b[2]):
                self.fail = '%s: %s vs %s' % (path, show(a)[:160], show(b)[:160])
                return False
            return all(self.u(x, y, path + '/' + a[1]) for x, y in zip(a[2], b[2]))
        if k in ('cat', 'tuple', 'array', 'list'):
            if len(a[1]) != len(b[1]):
                self.fail = '%s: %d vs %d parts: %s vs %s' % (path, len(a[1]), len(b[1]), show(a)[:200], show(b)[:200])
                return False
            return all(self.u(x, y, path + '/' + k) for x, y in zip(a[1], b[1]))
        if k == 'adt':
            if a[1] != b[1] or a[2] != b[2] or len(a[3]) != len(b[3]):
                self.fail = '%s: %s vs %s' % (path, show(a)[:160], show(b)[:160])
                return False
            return all(n1 == n2 and self.u(x, y, path + '.' + n1) for (n1, x), (n2, y) in zip(a[3], b[3]))
        if a != b:
            self.fail = '%s: %s vs %s' % (path, show(a)[:160], show(b)[:160])
        return a == b


def eval_spec(seed_field, cred_id, elem, Nok):
    seed = rfc.oprf_key_seed(seed_field, cred_id, Nok)
    key = App('DeriveKey', seed, Bytes(rfc.DERIVE_KEYPAIR_INFO), Adt('voprf::common::Mode', 'Oprf', []))
    return App('Eval', App('OprfServer', App('ser_scalar', key)), elem)


def check_eval(rep, rule, which, ev, sn, w, Nok, elem):
    """R08.2 / R14.1: evaluation = f(seed, credential id, request element) only"""
    seeds = [x for x in subterms(ev, lambda t: t[0] == 'fld' and root_of(t) == Sym('setup'))]
    seeds = [x for x in seeds if not any(x != y and contains(y, x) for y in seeds)]
    exp = eval_spec(seeds[0], Sym('cred_id'), elem, Nok) if (len(set(seeds)) == 1 and elem is not None) else None
    good = exp is not None and ev == exp
    rep.ob(rule, '%s: evaluation element equals Eval(DeriveKeyPair(Expand(seed, cred_id||"OprfKey", Nok), "OPAQUE-DeriveKeyPair"), request element)' % which,
           good, 'got %s ; expected %s' % (show(ev)[:500], show(exp)[:500]), w, sn, sample=show(ev)[:400])
    clean = not rng_terms(ev) and not mentions(ev, Sym('file')) and not find_apps(ev, 'KeGroup::public_key')
    rep.ob(rule, '%s: evaluation element mentions no RNG draw, password file or static key' % which, clean, show(ev)[:300], w, sn)
    return good and clean


def run(ctx):
    rep = core.Report('C08', ctx.tier, EXPLANATION, ASSUMPTIONS)
    n_pairs = n_dummy = 0
    for sn in ctx.suite_names:
        P = suite_params(sn)
        s = api_summary(ctx, sn, 'slog_start')
        w = where_of(s)
        rep.ob('R08.0', 'ServerLogin::start summary complete', s.complete and bool(s.ok_paths), str(s.notes), w, sn)
        FILE = Sym('file')
        groups = {}
        for p in s.ok_paths:
            a = dict(p.state.assume)
            fv = a.pop(FILE, None)
            key = frozenset((k, v) for k, v in a.items() if k[0] in ('fld', 'sym', 'as') and not mentions(k, FILE))
            groups.setdefault(key, {})[fv] = p
        uses = 0
        for key, g in groups.items():
            ok_pair = 1 in g and 0 in g
            rep.ob('R08.1', 'every Ok path with a record has a twin without one (same other choices)', ok_pair,
                   'branches on the record presence beyond selecting it: variants present %s' % sorted(k for k in g if k is not None), w, sn)
            if not ok_pair:
                continue
            ps, pn = g[1], g[0]
            U = Unifier(an.someval(FILE))
            good = U.u(ps.value, pn.value, 'result')
            n_pairs += int(good)
            rep.ob('R08.1', 'registered and unregistered responses/states are identical modulo the record', good, U.fail or '', w, sn,
                   sample='bindings: ' + '; '.join('%s := %s' % (show(k), show(v)[:60]) for k, v in sorted(U.bind.items(), key=repr)))
            if not good:
                continue
            # the extra draw of the unregistered run must not be shared with any other quantity
            extra = [v for v in U.bind.values() if is_rng_draw(v)]
            shared = [v for v in extra if v[2][1] in U.rmap.values()]
            rep.ob('R08.3', 'dummy masking key is its own RNG draw', len(extra) == 1 and not shared,
                   'RNG-bound record leaves: %s' % [show(x) for x in extra], w, sn)
            pub = setup_public_key(ctx, sn)
            kinds = {'rng': 0, 'zero': 0, 'setup': 0, 'other': []}
            for k, v in U.bind.items():
                if is_rng_draw(v):
                    kinds['rng'] += 1
                elif v is not None and v[0] == 'zero':
                    kinds['zero'] += 1
                elif v is not None and v[0] == 'adt' and not v[3]:
                    kinds['zero'] += 1   # fieldless mode tag
                elif is_whole_field_of(v, Sym('setup')) and v[0] == 'fld' and (pub is None or not contains(pub, v)) and v != pub:
                    kinds['setup'] += 1
                else:
                    kinds['other'].append('%s := %s' % (show(k), show(v)[:80]))
            gd = kinds['rng'] == 1 and kinds['zero'] >= 2 and kinds['setup'] == 1 and not kinds['other']
            n_dummy += int(gd)
            rep.ob('R08.3', 'dummy record = (fresh RNG masking key, zero envelope, setup fake key)', gd, str(kinds), w, sn)
            # pad key role
            prks = [e[1] for e in ps.events if e[0] == 'expand' and cat_parts(e[2])[-1:] == [Bytes(b'CredentialResponsePad')]]
            rep.ob('R08.3', "the record's masking key is the pad key", bool(prks) and is_rng_draw(U.bind.get(prks[0])), show(prks[0]) if prks else '-', w, sn)
        rep.ob('R08.1', 'both record variants reached', any(1 in g and 0 in g for g in groups.values()), '', w, sn)
        # R08.2
        for p in s.ok_paths:
            ev = msg_eval(fields(p.payload).get('message'))
            check_eval(rep, 'R08.2', 'ServerLogin::start', ev, sn, w, P['Nok'], role_term(ctx, sn, s, 4, Sym('request'), 'blinded'))
        # R08.4 lengths are types
        S = ctx.suite(sn)
        b = S.find('opaque_ke::CredentialResponse::<CS>::serialize')
        rep.ob('R08.4', 'CredentialResponse::serialize returns a fixed-length array type', ty_bytes_len(b['locals'][0]['ty']) is not None,
               b['locals'][0]['ty'], core.body_loc(b), sn)
        # R08.6
        s2 = api_summary(ctx, sn, 'setup_new_with_key')
        for p in s2.ok_paths:
            vals = fields(p.value)
            draws = [v for v in vals.values() if is_rng_draw(v)]
            kps = [v for v in vals.values() if find_apps(v, 'KeGroup::derive_auth_keypair')]
            seeded = kps and all(is_rng_draw(x[2][0]) for v in kps for x in find_apps(v, 'KeGroup::derive_auth_keypair'))
            rep.ob('R08.6', 'setup seed and fake key pair are RNG draws of ServerSetup::new_with_key', len(draws) == 1 and bool(seeded),
                   show(p.value)[:400], where_of(s2), sn)
    ns = len(ctx.suite_names)
    rep.floor('R08.1', 'unified twin pairs', n_pairs, 4 * ns)
    rep.floor('R08.3', 'dummy records', n_dummy, 4 * ns)
    from rules import profile
    profile.check(ctx, rep, 'R08.P', ['slog_start', 'setup_new_with_key'])
    from rules import lclone
    lclone.check(ctx, rep, 'R08.C')
    return rep
