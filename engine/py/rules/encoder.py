"""The crate's integer-to-octet-string encoder, analysed from its body by finite abstraction (DESIGN 3.2-4, C05/C12).

The encoder is recognised by shape (crate-local fn(usize) -> Result<GenericArray<u8, W>, _> using usize::to_be_bytes).  Its body is
interpreted on a symbolic n; every comparison a path assumed must be a function of leading_zeros(n) alone, which is then evaluated on
the 65 classes lz = 0..64 (a finite abstract domain: no solver, no concrete execution).  Required: Ok exactly for the classes with
bit length <= 8*W, Err for the others, and the Ok value is the low W bytes of the 8-byte big-endian form of n."""
import core
import interp
from terms import *  # noqa
from rules.common import *  # noqa


def fold(t, env):
    """evaluate an arithmetic/comparison term with the substitution env; returns int or None"""
    if t in env:
        return env[t]
    if t[0] == 'int':
        return t[1]
    if t[0] == 'app':
        f, a = t[1], t[2]
        if f == 'cast':
            return fold(a[0], env)
        if f == 'Not':
            x = fold(a[0], env)
            return None if x is None else int(not x)
        if f in ('Add', 'Sub', 'Mul', 'Div', 'Rem', 'Eq', 'Ne', 'Lt', 'Le', 'Gt', 'Ge', 'saturating_sub', 'Shr', 'Shl', 'BitAnd', 'BitOr', 'div_ceil', 'min', 'max') and len(a) == 2:
            x, y = fold(a[0], env), fold(a[1], env)
            if x is None or y is None:
                return None
            try:
                return {'Add': lambda: x + y, 'Sub': lambda: x - y, 'Mul': lambda: x * y, 'Div': lambda: x // y, 'Rem': lambda: x % y,
                        'Eq': lambda: int(x == y), 'Ne': lambda: int(x != y), 'Lt': lambda: int(x < y), 'Le': lambda: int(x <= y),
                        'Gt': lambda: int(x > y), 'Ge': lambda: int(x >= y), 'saturating_sub': lambda: max(x - y, 0),
                        'Shr': lambda: x >> y, 'Shl': lambda: x << y, 'BitAnd': lambda: x & y, 'BitOr': lambda: x | y,
                        'div_ceil': lambda: -(-x // y), 'min': lambda: min(x, y), 'max': lambda: max(x, y)}[f]()
            except Exception:
                return None
        if f == 'ovf':
            inner = fold(a[0], env)
            return None if inner is None else int(inner < 0 or inner >= (1 << 64))
    if t[0] == 'tuple':
        return None
    return None


def check_encoder(ctx, rep, rule, sn):
    S = ctx.suite(sn)
    ids = S.i2osp_ids()
    rep.ob(rule, 'integer encoder recognised by shape (widths 1 and 2)', sorted(set(ids.values())) == [1, 2],
           'recognised instances: %s' % {S.bodies[i]['generic_path']: w for i, w in ids.items()}, '', sn)
    N = Sym('n')
    LZ = App('leading_zeros', N)
    n_ok = 0
    for bid, w in sorted(ids.items()):
        body = S.bodies[bid]
        # interpret the body itself (the shape-based model is for call sites only)
        saved = S._i2osp
        S._i2osp = {}
        try:
            I, outs = interp.summarize(S, body, [N], adts=ctx.adts)
        finally:
            S._i2osp = saved
        where = core.body_loc(body)
        rep.ob(rule, 'encoder (width %d) explored completely' % w, not any(x.startswith('STOP') or 'loop cap' in x for x in I.notes) and bool(outs), str(I.notes), where, sn)
        ok_classes, err_classes = set(), set()
        understood = True
        for st, ret in outs:
            p = core.Path(st, ret)
            conds = [(e[1], e[2]) for e in p.events if e[0] == 'assume']
            consistent = []
            for c in range(65):
                env = {LZ: c}
                good = True
                for t, v in conds:
                    x = fold(t, env)
                    if x is None:
                        understood = False
                        rep.ob(rule, 'encoder (width %d): every comparison is a function of the bit length of its argument' % w, False,
                               'condition %s is not a function of leading_zeros(n)' % show(t)[:200], where, sn)
                        good = False
                        break
                    if isinstance(v, int) and bool(x) != bool(v):
                        good = False
                if not understood:
                    break
                if good:
                    consistent.append(c)
            if not understood:
                break
            (ok_classes if p.ok else err_classes).update(consistent)
            if p.ok:
                want = mk_slice(App('I2OSP', N, Int(8)), Int(8 - w), Int(8))
                got = p.payload
                rep.ob(rule, 'encoder (width %d): Ok value is the low %d bytes of the big-endian form' % (w, w), got == want,
                       'returns %s, expected %s' % (show(got)[:200], show(want)), where, sn, sample='I2OSP(n,%d) = %s' % (w, show(got)[:100]))
            # asserts inside the encoder must hold on every class consistent with the path
            for e in p.events:
                if e[0] == 'assert' and e[3][0] != 'int':
                    bad = [c for c in consistent if fold(e[3], {LZ: c}) is None or bool(fold(e[3], {LZ: c})) != bool(e[4])]
                    rep.ob(rule, 'encoder (width %d): compiler-inserted check cannot fail' % w, not bad, '%s fails for leading_zeros in %s' % (show(e[3])[:120], bad[:4]), core.rel(e[-1]), sn)
        if not understood:
            continue
        spec_ok = set(c for c in range(65) if 64 - c <= 8 * w)
        good = ok_classes == spec_ok and err_classes == set(range(65)) - spec_ok
        n_ok += int(good)
        rep.ob(rule, 'encoder (width %d): refuses exactly the values that need more than %d bytes' % (w, w), good,
               'Ok for bit lengths %s, Err for bit lengths %s (expected Ok iff bit length <= %d)' % (
                   _rng(sorted(64 - c for c in ok_classes)), _rng(sorted(64 - c for c in err_classes)), 8 * w), where, sn)
    return n_ok


def _rng(v):
    if not v:
        return '{}'
    if v == list(range(v[0], v[-1] + 1)):
        return '[%d..%d]' % (v[0], v[-1])
    return str(v[:10])
