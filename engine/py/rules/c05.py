"""C05 — identities, context and credential identifier are bound, unambiguously (DESIGN section 5, C05)."""
import core
import rfc
from terms import *  # noqa
from rules.common import *  # noqa
from rules import anatomy as an

EXPLANATION = (
    "Term analysis over monomorphic MIR, per suite. (1) The preamble whose hash both sides MAC is compared, on every Ok path of ClientLogin::finish and "
    "ServerLogin::start, with the RFC 9807 preamble instantiated with that side's own inputs: context (absent = empty), effective identities (the caller's value "
    "when given, else the serialised static public key of the respective party, with client/server roles in RFC order), the code's own encodings of request and "
    "response. (2) The sealed and the opened envelope MAC inputs are nonce || server key || LP2(id_s) || LP2(id_u) with the same effective identities. "
    "(3) Unique decodability: in every byte string that is hashed, MACed or used as HKDF info/IKM, each variable-length part is immediately preceded by "
    "I2OSP(len(part), w) (w = 2 for context and identities) or is the string's only variable part. (4) The integer encoder's failure outcome reaches an Err "
    "return on every path. (5) The credential identifier is part of the OPRF key term of both server start steps."
)
ASSUMPTIONS = ["arithmetic inside the integer encoder (its 255/256/65535/65536 boundaries are pinned by the crate's unit test)", "hash collision resistance"]


def lp2_ok(s, x):
    """x occurs in s immediately after I2OSP(len(x), 2) (or its literal when the length is a constant)"""
    parts = cat_parts(s)
    xp = cat_parts(x)
    n = len(xp)
    for i in range(1, len(parts) - n + 1):
        if parts[i:i + n] == xp:
            pre = parts[i - 1]
            l = tlen(x)
            if l is None:
                if pre == App('I2OSP', App('len', x), Int(2)):
                    return True
            else:
                lit = l.to_bytes(2, 'big')
                if pre[0] == 'bytes' and pre[1].endswith(lit):
                    return True
    return False


def run(ctx):
    rep = core.Report('C05', ctx.tier, EXPLANATION, ASSUMPTIONS)
    n_pre = n_aad = n_str = 0
    seen_strings = set()
    for sn in ctx.suite_names:
        P = suite_params(sn)
        params = Sym('params')
        ids = ('fld', params, 'identifiers')
        # ---- client login finish
        fin = api_summary(ctx, sn, 'clog_finish')
        w = where_of(fin)
        for p in fin.ok_paths:
            a = an.client_finish(p)
            if len(a['mac_ok']) < 2:
                rep.ob('R05.1', 'client: server MAC comparison present', False, '', w, sn)
                continue
            pre = an.hash_preimage(a['mac_ok'][-1][2])
            exp = an.client_login_preamble(ctx, sn, p, P)
            good = pre is not None and exp is not None and pre == exp
            n_pre += int(good)
            rep.ob('R05.1', 'client preamble = RFC preamble over (context, effective identities in RFC roles, request, response)', good,
                   'got      %s\nexpected %s' % (show(pre)[:900], show(exp)[:900]), w, sn, sample=show(pre)[:600])
            # envelope AAD at open
            m1 = a['mac_ok'][0][2]
            dec = a['decode_pk'][0][1] if a['decode_pk'] else None
            pkstar = an.okval(App('KeGroup::deserialize_pk', dec)) if dec is not None else None
            csk = [args[1] for _, args in a['dh'] if 'rp' in a and contains(args[1], a['rp'])]
            if pkstar is not None and csk:
                id_u = an.ident_choice(p, ('fld', ids, 'client'), an.ser_pk(App('KeGroup::public_key', csk[0])))
                id_s = an.ident_choice(p, ('fld', ids, 'server'), an.ser_pk(pkstar))
                nonce = cat_parts(m1)[0] if cat_parts(m1) else None
                expm = Cat([nonce, rfc.cleartext_credentials(an.ser_pk(pkstar), id_s, id_u)]) if (id_u is not None and id_s is not None) else None
                good = expm is not None and m1 == expm
                n_aad += int(good)
                rep.ob('R05.1', 'opened envelope MAC input = nonce || server key || LP2(id_s) || LP2(id_u)', good,
                       'got      %s\nexpected %s' % (show(m1)[:600], show(expm)[:600]), w, sn)
            else:
                rep.ob('R05.1', 'opened envelope: decoded server key and client key located', False, '', w, sn)
        # ---- client registration finish (seal)
        reg = api_summary(ctx, sn, 'creg_finish')
        w = where_of(reg)
        for p in reg.ok_paths:
            env = fields(msg_envelope(fields(p.payload).get('message')))
            macs = [v for v in env.values() if app_args(v, 'Mac')]
            upl = fields(fields(p.payload).get('message'))
            cpk = [v for v in upl.values() if v is not None and v[0] == 'adt' and 'PublicKey' in v[1]]
            good = False
            detail = 'no Mac in envelope'
            if macs and cpk:
                m = macs[0][2][1]
                spk = an.ser_pk(('fld', role_term(ctx, sn, reg, 4, Sym('response'), 'pubkeys'), '0'))
                id_u = an.ident_choice(p, ('fld', ids, 'client'), an.ser_pk(fields(cpk[0]).get('0')))
                id_s = an.ident_choice(p, ('fld', ids, 'server'), spk)
                nonce = cat_parts(m)[0] if cat_parts(m) else None
                expm = Cat([nonce, rfc.cleartext_credentials(spk, id_s, id_u)]) if (id_u is not None and id_s is not None) else None
                good = expm is not None and m == expm
                detail = 'got      %s\nexpected %s' % (show(m)[:600], show(expm)[:600])
            n_aad += int(good)
            rep.ob('R05.1', 'sealed envelope MAC input = nonce || server key || LP2(id_s) || LP2(id_u)', good, detail, w, sn)
        # ---- server login start
        st = api_summary(ctx, sn, 'slog_start')
        w = where_of(st)
        for p in st.ok_paths:
            pre, mac = an.server_login_mac_preimage(p)
            exp = an.server_login_preamble(ctx, sn, p, P)
            good = pre is not None and exp is not None and pre == exp
            n_pre += int(good)
            rep.ob('R05.1', 'server preamble = RFC preamble over (context, effective identities in RFC roles, request, response)', good,
                   'got      %s\nexpected %s' % (show(pre)[:900], show(exp)[:900]), w, sn)
        # ---- R05.3 unique decodability of every authenticated string; R05.6 widths
        for which in ('creg_finish', 'clog_finish', 'slog_start', 'sreg_start'):
            s = api_summary(ctx, sn, which)
            w = where_of(s)
            for p in s.ok_paths:
                terms_ = [p.value] + [e[k] for e in p.events if e[0] == 'MacVerify' for k in (2, 3)]
                for t in terms_:
                    for kind, bs in an.byte_strings(t):
                        ok, widths, reason = an.decodability(bs)
                        key = (which, kind, show(bs)[:200])
                        if key not in seen_strings:
                            seen_strings.add(key)
                        n_str += 1
                        rep.ob('R05.3', '%s: %s is uniquely decodable' % (which, kind), ok, '%s in %s' % (reason, show(bs)[:500]), w, sn)
                        for i, wd in widths.items():
                            part = cat_parts(bs)[i]
                            if mentions(part, params) or mentions(part, Sym('cred_id')):
                                rep.ob('R05.6', '%s: caller-supplied variable part has a 2-byte length prefix' % which, wd == 2,
                                       'width %d before %s' % (wd, show(part)[:100]), w, sn)
                # R05.4
            for p in s.paths:
                if any(e[0] == 'I2OSP' and e[1] == 'Err' for e in p.events):
                    rep.ob('R05.4', '%s: failure of the length encoder reaches an Err return' % which, not p.ok, 'Ok path after I2OSP failure', w, sn)
        # ---- R05.7 the integer encoder itself
        from rules import encoder
        encoder.check_encoder(ctx, rep, 'R05.7', sn)
        # ---- R05.5
        for which in ('sreg_start', 'slog_start'):
            s = api_summary(ctx, sn, which)
            for p in s.ok_paths:
                ev = msg_eval(fields(p.payload).get('message'))
                keys = find_apps(ev, 'DeriveKey')
                rep.ob('R05.5', '%s: credential identifier is in the OPRF key term' % which, bool(keys) and contains(keys[0], Sym('cred_id')),
                       show(ev)[:300], where_of(s), sn)
    ns = len(ctx.suite_names)
    rep.floor('R05.1', 'preambles matched', n_pre, 16 * ns)
    rep.floor('R05.1', 'envelope MAC inputs matched', n_aad, 16 * ns)
    rep.floor('R05.3', 'authenticated strings checked', len(seen_strings), 7)
    from rules import profile
    profile.check(ctx, rep, 'R05.P', ['creg_finish', 'clog_finish', 'slog_start', 'sreg_start'])
    from rules import lclone
    lclone.check(ctx, rep, 'R05.C')
    from rules import lparams
    lparams.check(ctx, rep, 'R05.N')
    return rep
