"""C10 — wire and storage encodings are strict and canonical (DESIGN section 5, C10)."""
import core
import facts
import num
from terms import *  # noqa
from rules.common import *  # noqa
from rules import anatomy as an

EXPLANATION = (
    "Length and layout analysis of the 11 public decoders, per suite, on monomorphic MIR with every typenum constant evaluated. R10.1: for every Ok return path "
    "of X::deserialize(input) the comparisons the path assumed (slice-length tests inlined from the crate's helpers, array conversions) and the accepted-length "
    "summaries of dependency leaf decoders are intersected; the admissible set of len(input) must be exactly {E}, E being the length in X::serialize's return type. "
    "R10.2: symbolic round trip — X::serialize applied to the decoded value, with leaf encode(decode(s)) = s, must rebuild input[0..E] part by part (no gap, overlap, "
    "reordering or ignored byte). R10.3: every leaf decoder reached must be canonical at the length it is called with, per a reviewed table of dependency decoders, or be "
    "wrapped by a canonicity guard (exact length + tag test, or comparison of the re-encoding with the input). The key-exchange group decoders are analysed from their own bodies."
)
ASSUMPTIONS = ["accepted-length / canonicity summaries of dependency decoders (DESIGN 3.6), valid only for the pinned Cargo.lock versions",
               "leaf encoders are injective on values (group encodings)"]

KE_GROUP_IMPL = {'r255': 'Ristretto255', 'p256': 'NistP256', 'p384': 'NistP384', 'p521': 'NistP521', 'c25519': 'Curve25519'}


def group_decoder_summaries(ctx, sn, rep, P):
    """analyse <KG as KeGroup>::deserialize_pk / deserialize_sk from their bodies: accepted lengths + canonicity guards"""
    S = ctx.suite(sn)
    out = {}
    for name in ('deserialize_pk', 'deserialize_sk'):
        bs = [b for b in S.bodies.values() if b.get('impl_trait_dpath') == 'opaque_ke::key_exchange::group::KeGroup' and b.get('name') == name]
        if len(bs) != 1:
            rep.ob('R10.4', 'KeGroup::%s instance found' % name, False, 'instances=%d' % len(bs), '', sn)
            continue
        b = bs[0]
        s = ctx.summary(sn, b['generic_path'], params=[Sym('bytes')])
        w = where_of(s)
        rep.ob('R10.4', 'KeGroup::%s summarised' % name, s.complete and bool(s.ok_paths), str(s.notes), w, sn)
        allowed = set()
        unb = False
        tag_ok = True
        deps = set()
        for p in s.ok_paths:
            dep = {k: f(P) for k, f in num.DEP_LEAF.items()}
            L = num.path_lengths(p, Sym('bytes'), P, dep)
            allowed |= set(L.values())
            unb = unb or L.unbounded
            for e in p.events:
                if e[0] == 'outcome' and e[1][0] == 'app':
                    deps.add(e[1][1])
            # canonicity guards seen on the path
            # the first byte read as `bytes.first()` or as `bytes[0]` / a slice pattern
            tags = [e for e in p.events if e[0] == 'assume' and e[1][0] == 'app' and isinstance(e[2], int) and (
                e[1][1] == 'first' or (e[1][1] == 'index' and len(e[1][2]) == 2 and e[1][2][1] == Int(0)))]
            reenc = [e for e in p.events if e[0] == 'assume' and e[2] == 1 and e[1][0] == 'app' and e[1][1] in ('eq', 'ct_eq')
                     and any(x == Sym('bytes') for x in e[1][2])]
            if 'elliptic_curve::public_key::PublicKey::from_sec1_bytes' in deps:
                ok_tags = bool(tags) and all(e[2] in (2, 3) for e in tags)
                tag_ok = tag_ok and (ok_tags or bool(reenc))
        out['KeGroup::' + name] = (allowed, (min(allowed) if allowed else 0) if unb else None)
        out['deps:' + name] = deps
        E = P['Npk'] if name == 'deserialize_pk' else P['Nsk']
        rep.ob('R10.4', 'KeGroup::%s: accepted lengths derived from its body include the encoder length' % name, E in allowed,
               'accepted input lengths %s, encoder length %d (dependency decoders: %s)' % (sorted(allowed)[:8], E, sorted(deps)), w, sn,
               sample='%s: Ok => len in %s%s' % (name, sorted(allowed)[:6], ' or more' if unb else ''))
        if name == 'deserialize_pk' and 'elliptic_curve::public_key::PublicKey::from_sec1_bytes' in deps:
            rep.ob('R10.3', 'KeGroup::deserialize_pk (SEC1) accepts only the compressed tags 02/03 (no alias encoding)', tag_ok,
                   'from_sec1_bytes also accepts the compact tag 05 (and the uncompressed form): no tag test or re-encoding comparison on the Ok path', w, sn)
    return out


def run(ctx):
    rep = core.Report('C10', ctx.tier, EXPLANATION, ASSUMPTIONS)
    bad = num.check_pinned(facts.REPO)
    if bad:
        raise facts.MachineryError('dependency summaries not reviewed for this Cargo.lock: %s' % bad)
    n_exact = n_rt = 0
    for sn in ctx.suite_names:
        P = suite_params(sn)
        S = ctx.suite(sn)
        kg = group_decoder_summaries(ctx, sn, rep, P)
        an.group_codec_purity(ctx, rep, 'R10.5', sn)
        for name, tp in DECODERS.items():
            d = ctx.summary(sn, tp + '::deserialize', params=[Sym('input')])
            w = where_of(d)
            sb = S.find(tp + '::serialize')
            E = ty_bytes_len(sb['locals'][0]['ty'])
            rep.ob('R10.0', '%s: decoder summarised, encoder length is a type' % name, d.complete and len(d.ok_paths) >= 1 and E is not None,
                   'ok paths=%d notes=%s ret=%s' % (len(d.ok_paths), d.notes, sb['locals'][0]['ty']), w, sn)
            if E is None:
                continue
            # a syntactic Ok path whose collected length constraints contradict each other (e.g. the `Equal` arm of a three-way comparison
            # followed by a test the equal length cannot pass) is taken by no input and accepts nothing; at least one Ok path must remain
            def _infeasible(p):
                L0 = num.path_lengths(p, Sym('input'), P, kg)
                return L0.values() == [] and not L0.unbounded and not L0.unknown
            feasible = [p for p in d.ok_paths if not _infeasible(p)]
            rep.ob('R10.0', '%s: some Ok path of the decoder is feasible' % name, bool(feasible), 'ok paths %d, all with contradictory length constraints' % len(d.ok_paths), w, sn)
            for p in feasible:
                L = num.path_lengths(p, Sym('input'), P, kg)
                exact = L.values() == [E] and not L.unbounded and not L.unknown
                n_exact += int(exact)
                rep.ob('R10.1', '%s::deserialize accepts exactly one input length' % name, exact,
                       'Ok => len(input) in %s, encoder length %d; constraints: %s%s' % (L.describe(), E, L.reasons, (' ; not understood: %s' % L.unknown) if L.unknown else ''),
                       w, sn, sample='%s: Ok => len(input) in %s (E=%d)' % (name, L.describe(), E))
                # R10.2 symbolic round trip
                val = p.payload
                enc = an.ser(ctx, sn, tp, val)

                def leafid(x):
                    if x[0] == 'app':
                        if x[1] in ('ser_elem', 'ser_scalar') and x[2][0][0] == 'app' and x[2][0][1] == 'Decoded':
                            return x[2][0][2][1]
                        if x[1] in ('KeGroup::serialize_pk', 'KeGroup::serialize_sk'):
                            a = x[2][0]
                            want = 'KeGroup::deserialize_pk' if x[1].endswith('_pk') else 'KeGroup::deserialize_sk'
                            if a[0] == 'fld' and a[2] == '0' and a[1][0] == 'as' and a[1][2] == 'Ok' and a[1][1][0] == 'app' and a[1][1][1] == want:
                                return a[1][1][2][0]
                        if x[1] == 'len' and x[2][0] == Sym('input'):
                            return Int(E)
                    return x
                rt = rewrite(enc, leafid) if enc is not None else None
                rt = rewrite(rt, leafid) if rt is not None else None
                good = rt in (mk_slice(Sym('input'), Int(0), Int(E)), Sym('input'))
                n_rt += int(good)
                rep.ob('R10.2', '%s: serialize(deserialize(input)) rebuilds input[0..E] part by part' % name, good,
                       'round trip gives %s' % show(rt)[:500], w, sn)
                # R10.3 key leaves are called with exactly the encoder's length (SecretKey::from_slice pads short inputs,
                # from_sec1_bytes accepts the uncompressed form: both are canonical only at the exact length)
                for e in p.events:
                    if e[0] == 'outcome' and e[2] == 'Ok' and e[1][0] == 'app' and e[1][1] in ('KeGroup::deserialize_pk', 'KeGroup::deserialize_sk'):
                        l = num.lin(App('len', e[1][2][0]), Sym('input'))
                        want = P['Npk'] if e[1][1].endswith('_pk') else P['Nsk']
                        got = (l[0] * E + l[1]) if l is not None else None
                        rep.ob('R10.3', '%s: key leaf %s is decoded from exactly the encoder\'s length' % (name, e[1][1].split('::')[-1]), got == want,
                               'slice %s has length %s, encoder length %d' % (show(e[1][2][0])[:100], got, want), w, sn)
                # R10.3 leaf canonicity of OPRF-group leaves (dependency decoders)
                if P['oprf'] != 'r255':
                    for e in p.events:
                        if e[0] == 'outcome' and e[2] == 'Ok' and e[1][0] == 'app' and e[1][1] in (
                                'voprf::BlindedElement::deserialize', 'voprf::EvaluationElement::deserialize'):
                            arg = e[1][2][0]
                            dec = App('Decoded', Sym(e[1][1].split('::')[-2]), arg)
                            guards = [g for g in p.events if g[0] == 'assume' and g[2] == 1 and g[1][0] == 'app' and g[1][1] in ('eq', 'ct_eq')
                                      and App('ser_elem', dec) in g[1][2] and arg in g[1][2]]
                            rep.ob('R10.3', '%s: OPRF element leaf (SEC1 via voprf) is canonical or guarded by a re-encoding comparison' % name, bool(guards),
                                   "voprf's NIST deserialize_elem accepts the SEC1 compact tag 05 for %s, which re-encodes as 02/03 (alias encoding); no re-encoding guard on the Ok path" % show(arg)[:80],
                                   w, sn)
    ns = len(ctx.suite_names)
    rep.floor('R10.1', 'decoder Ok paths analysed', n_exact + sum(1 for o in rep.obligations if o['rule'] == 'R10.1' and not o['ok']), 11 * ns)
    rep.floor('R10.2', 'round trips analysed', n_rt + sum(1 for o in rep.obligations if o['rule'] == 'R10.2' and not o['ok']), 11 * ns)
    from rules import profile
    profile.check(ctx, rep, 'R10.P', [tp + '::deserialize' for tp in DECODERS.values()] + [tp + '::serialize' for tp in DECODERS.values()])
    return rep
