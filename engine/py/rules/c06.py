"""C06 — password file is bound to the server's static key (DESIGN section 5, C06)."""
import core
from terms import *  # noqa
from rules.common import *  # noqa
from rules import anatomy as an

EXPLANATION = (
    "Provenance analysis of the server public key over monomorphic MIR, per suite: (1) the key sent in the registration response is the term "
    "returned by the public accessor chain setup.keypair().public(); (2) at ClientRegistration::finish one term — the response's key — is both "
    "inside the sealed envelope MAC input and returned to the caller; (3) at ServerLogin::start the first part of the masked plaintext is the "
    "serialisation of the public key obtained from the *setup's private key* through the SecretKey interface, and the same private key is "
    "used in a Diffie-Hellman slot; (4) at ClientLogin::finish one decoded term is inside the opened envelope's MAC input, is the public key of "
    "a Diffie-Hellman slot and is the returned key; (5) the envelope MAC comparison guards every Ok path."
)
ASSUMPTIONS = ["MAC unforgeability (not decided)", "KeyPair.pk = public_key(KeyPair.sk) for keys built by the library (checked at construction sites in C11)"]


def run(ctx):
    rep = core.Report('C06', ctx.tier, EXPLANATION, ASSUMPTIONS)
    n = 0
    for sn in ctx.suite_names:
        P = suite_params(sn)
        # R06.1
        s = api_summary(ctx, sn, 'sreg_start')
        w = where_of(s)
        pub = setup_public_key(ctx, sn)
        rep.ob('R06.0', 'public accessor chain resolved', pub is not None, 'setup.keypair().public() could not be summarised', w, sn)
        for p in s.ok_paths:
            got = field_where(fields(p.payload).get('message'), lambda x: x is not None and not (x[0] == 'app' and x[1] == 'Eval'))
            n += int(got == pub)
            rep.ob('R06.1', "registration response carries the setup's public key", got == pub and pub is not None,
                   'server_s_pk = %s ; setup.keypair().public() = %s' % (show(got), show(pub)), w, sn, sample=show(got))
        rep.ob('R06.0', 'ServerRegistration::start has an Ok path', bool(s.ok_paths) and s.complete, str(s.notes), w, sn)
        # R06.2
        s = api_summary(ctx, sn, 'creg_finish')
        w = where_of(s)
        RPK = role_term(ctx, sn, s, 4, Sym('response'), 'pubkeys')
        rep.ob('R06.0', 'registration response public-key field located by type', RPK is not None, '', w, sn)
        for p in s.ok_paths:
            res = fields(p.payload)
            env = fields(msg_envelope(res.get('message')))
            macs = [v for v in env.values() if app_args(v, 'Mac')]
            inmac = bool(macs) and contains(macs[0][2][1], App('KeGroup::serialize_pk', ('fld', RPK, '0')))
            n += int(inmac)
            rep.ob('R06.2', "the response's server key is inside the sealed envelope MAC input", inmac,
                   'envelope MAC input = %s' % (show(macs[0][2][1])[:400] if macs else 'no Mac term in the envelope'), w, sn)
            rep.ob('R06.2', "the returned server_s_pk is the response's key", res.get('server_s_pk') == RPK,
                   'returned %s' % show(res.get('server_s_pk')), w, sn)
        rep.ob('R06.0', 'ClientRegistration::finish has Ok paths', bool(s.ok_paths) and s.complete, str(s.notes), w, sn)
        # R06.3
        s = api_summary(ctx, sn, 'slog_start')
        w = where_of(s)
        for p in s.ok_paths:
            res = fields(p.payload)
            mr = fields(msg_masked(res.get('message')))
            xs = []
            for v in mr.values():
                xs.extend(find_apps(v, 'xor'))
            good = False
            detail = 'no xor term in the masked response'
            if xs:
                plain = xs[0][2][1]
                first = cat_parts(plain)[0] if cat_parts(plain) else None
                a = app_args(first, 'KeGroup::serialize_pk')
                pk = app_args(a[0], 'KeGroup::public_key') if a else None
                detail = 'first plaintext part = %s' % show(first)[:300]
                if pk is not None:
                    sk = pk[0]
                    dh = [e for _, e in p.calls('KeGroup::diffie_hellman') if e[2][1] == sk]
                    good = is_whole_field_of(sk, Sym('setup')) and bool(dh) and tlen(first) == P['Npk']
                    detail += ' ; sk = %s ; DH slots with it = %d' % (show(sk), len(dh))
            n += int(good)
            rep.ob('R06.3', "masked plaintext starts with the public key of the setup's private key, which also feeds a DH slot", good, detail, w, sn,
                   sample=detail)
        # R06.4
        s = api_summary(ctx, sn, 'clog_finish')
        w = where_of(s)
        for p in s.ok_paths:
            a = an.client_finish(p)
            res = fields(p.payload)
            good_a = good_b = good_c = env_guard = False
            if a['decode_pk'] and a['mac_ok']:
                dec = a['decode_pk'][0][1]
                pkstar = an.okval(App('KeGroup::deserialize_pk', dec))
                i1, k1, m1, t1 = a['mac_ok'][0][:4]
                good_a = contains(m1, App('KeGroup::serialize_pk', pkstar))
                good_b = any(args[0] == pkstar for _, args in a['dh'])
                rpk = res.get('server_s_pk')
                good_c = rpk is not None and fields(rpk).get('0') == pkstar
                ka = app_args(k1, 'Expand')
                env_guard = ka is not None and 'rp' in a and ka[0] == a['rp'] and len(a['mac_ok']) >= 2
                sl = app_args(dec, 'Slice')
                rep.ob('R06.4', 'the decoded key is the first Npk bytes of the unmasked response',
                       sl is not None and sl[1] == Int(0) and sl[2] == Int(P['Npk']) and bool(find_apps(sl[0], 'xor')),
                       'decoded from %s' % show(dec)[:200], w, sn)
            n += int(good_a and good_b and good_c)
            rep.ob('R06.4', 'one decoded server key is in the opened envelope MAC input', good_a, '', w, sn)
            rep.ob('R06.4', 'the same key is the public key of a Diffie-Hellman slot', good_b, '', w, sn)
            rep.ob('R06.4', 'the same key is returned as server_s_pk', good_c, 'returned %s' % show(res.get('server_s_pk'))[:200], w, sn)
            rep.ob('R06.5', 'envelope MAC comparison (keyed from the randomized password) guards the Ok path', env_guard, '', w, sn)
    ns = len(ctx.suite_names)
    rep.floor('R06', 'key occurrences established', n, ns * (1 + 8 + 8 + 8))
    from rules import profile
    profile.check(ctx, rep, 'R06.P', ['sreg_start', 'creg_finish', 'slog_start', 'clog_finish'])
    from rules import lclone
    lclone.check(ctx, rep, 'R06.C')
    return rep
