"""C16 — export key is stable, separated and never leaves the client (DESIGN section 5, C16)."""
import core
import rfc
from terms import *  # noqa
from rules.common import *  # noqa
from rules import anatomy as an

EXPLANATION = (
    "Term and secret-flow analysis over monomorphic MIR, per suite. (1) The export key returned by registration finish is Expand(randomized_pwd, nonce||\"ExportKey\", Nh) "
    "with nonce a fresh RNG draw that is also stored in the envelope; the one returned by login finish is the same formula over the recovered envelope's nonce — the two "
    "terms coincide once the envelope is the registered one (C01 composite). (2) That nonce also salts the auth key and the client key seed. (3) Secret flow: for every "
    "leaf of every message and of the password file, any occurrence of a secret term (password, OPRF output, randomized password, export key, auth key, client key seed "
    "and secret key, session key, handshake secret, MAC keys) has a one-way node (Hash, Mac, Expand, Extract, Blind, public_key, diffie_hellman, Eval, Finalize) strictly "
    "above it, so a field *equal to* or *sliced from* a secret is a violation. (4) The only result fields equal to the export key are the two public export_key fields."
)
ASSUMPTIONS = ["one-wayness of hash/HMAC/HKDF/OPRF/group operations (computational hiding is not decided)",
               "masking_key is stored in the password file by design (RFC) and is not in the property's list of secrets"]

ONEWAY = ('Hash', 'Mac', 'Expand', 'Extract', 'Blind', 'KeGroup::public_key', 'KeGroup::diffie_hellman', 'Eval', 'Finalize', 'DeriveKey',
          'KeGroup::derive_auth_keypair', 'Ksf::hash', 'OprfClient', 'len')


def leaks(t, secret):
    """secret occurs in t with no one-way node strictly above the occurrence"""
    if t is None:
        return False
    if t == secret:
        return True
    k = t[0]
    if k == 'app':
        if t[1] in ONEWAY:
            return False
        return any(leaks(a, secret) for a in t[2])
    if k in ('cat', 'tuple', 'array', 'list'):
        return any(leaks(a, secret) for a in t[1])
    if k == 'adt':
        return any(leaks(v, secret) for _, v in t[3])
    if k in ('fld', 'as'):
        return leaks(t[1], secret)
    return False


def secrets_client(a, res, extra=()):
    s = {'password': Sym('password')}
    for k in ('o', 'rp'):
        if k in a:
            s[{'o': 'OPRF output', 'rp': 'randomized password'}[k]] = a[k]
    for lab, nm in (('AuthKey', 'auth key'), ('ExportKey', 'export key'), ('PrivateKey', 'client key seed')):
        for i, prk, info, L in a.get('env_' + lab, []):
            s[nm] = App('Expand', prk, info, L)
    for nm, v in extra:
        if v is not None:
            s[nm] = v
    return s


def run(ctx):
    rep = core.Report('C16', ctx.tier, EXPLANATION, ASSUMPTIONS)
    n_exp = n_flow = 0
    for sn in ctx.suite_names:
        P = suite_params(sn)
        Nh = P['Nh']
        # ---- registration
        s = api_summary(ctx, sn, 'creg_finish')
        w = where_of(s)
        for p in s.ok_paths:
            a = an.client_finish(p)
            res = fields(p.payload)
            ek = res.get('export_key')
            env = fields(msg_envelope(res.get('message')))
            nonces = [v for v in env.values() if is_rng_draw(v)]
            good = False
            if 'rp' in a and len(nonces) == 1:
                ks = rfc.envelope_keys(a['rp'], nonces[0], Nh, P['Nsk'])
                good = ek == ks['export_key']
                # R16.2 the same nonce salts auth key and seed
                auth = [App('Expand', prk, info, L) for _, prk, info, L in a.get('env_AuthKey', [])]
                seed = [App('Expand', prk, info, L) for _, prk, info, L in a.get('env_PrivateKey', [])]
                rep.ob('R16.2', 'seal: the fresh envelope nonce salts auth key, export key and client key seed', auth == [ks['auth_key']] and seed == [ks['seed']],
                       'auth=%s seed=%s' % ([show(x)[:120] for x in auth], [show(x)[:120] for x in seed]), w, sn)
            n_exp += int(good)
            rep.ob('R16.1', 'seal: export key = Expand(randomized_pwd, fresh nonce || "ExportKey", Nh), nonce stored in the envelope', good,
                   'export_key = %s ; envelope nonces %s' % (show(ek)[:300], [show(x) for x in nonces]), w, sn, sample=show(ek)[:300])
            others = [k for k, v in res.items() if k != 'export_key' and ek is not None and mentions(v, ek) and leaks(v, ek)]
            rep.ob('R16.4', 'seal: no other result field carries the export key', not others, str(others), w, sn)
            # R16.3 secret flow into the upload message (= password file)
            csk = [d[2][0] for d in find_apps(res.get('message'), 'KeGroup::public_key')]
            sec = secrets_client(a, res, [('client secret key', csk[0] if csk else None)])
            for nm, st in sec.items():
                bad = leaks(res.get('message'), st)
                n_flow += int(not bad)
                rep.ob('R16.3', 'registration upload / password file does not carry the %s outside a one-way function' % nm, not bad,
                       'secret %s reaches %s' % (show(st)[:160], show(res.get('message'))[:300]), w, sn)
        for which in ('creg_start', 'clog_start'):
            s = api_summary(ctx, sn, which)
            for p in s.ok_paths:
                msg = fields(p.payload).get('message')
                bad = leaks(msg, Sym('password'))
                n_flow += int(not bad)
                rep.ob('R16.3', '%s: the request does not carry the password outside a one-way function' % which, not bad, show(msg)[:300], where_of(s), sn)
        # ---- login
        s = api_summary(ctx, sn, 'clog_finish')
        w = where_of(s)
        for p in s.ok_paths:
            a = an.client_finish(p)
            res = fields(p.payload)
            ek = res.get('export_key')
            good = False
            if 'rp' in a and a['mac_ok']:
                m1 = a['mac_ok'][0][2]
                nonce = cat_parts(m1)[0] if cat_parts(m1) else None
                ks = rfc.envelope_keys(a['rp'], nonce, Nh, P['Nsk'])
                sl = app_args(nonce, 'Slice')
                from_env = sl is not None and sl[1] == Int(P['Npk']) and sl[2] == Int(P['Npk'] + 32) and bool(find_apps(sl[0], 'xor'))
                good = ek == ks['export_key'] and from_env and a['mac_ok'][0][1] == ks['auth_key']
            n_exp += int(good)
            rep.ob('R16.1', 'open: export key = Expand(randomized_pwd, envelope nonce || "ExportKey", Nh), same nonce as in the verified envelope MAC', good,
                   'export_key = %s' % show(ek)[:300], w, sn)
            sk = res.get('session_key')
            hs = []
            for k in subterms(sk, lambda t: t[0] == 'app' and t[1] == 'Extract'):
                hs.append(k)
            km = [c[1] for c in a['mac_ok'][1:]] + [x[2][0] for x in find_apps(res.get('message'), 'Mac')]
            csk = [args[1] for _, args in a['dh'] if 'rp' in a and contains(args[1], a['rp'])]
            extra = [('session key', sk), ('client secret key', csk[0] if csk else None)] + [('MAC key %d' % i, k) for i, k in enumerate(km)]
            for k in km:
                e = app_args(k, 'Expand')
                if e is not None:
                    extra.append(('handshake secret', e[0]))
            sec = secrets_client(a, res, extra)
            for nm, st in sec.items():
                bad = leaks(res.get('message'), st)
                n_flow += int(not bad)
                rep.ob('R16.3', 'credential finalization does not carry the %s outside a one-way function' % nm, not bad,
                       'secret %s reaches %s' % (show(st)[:160], show(res.get('message'))[:300]), w, sn)
            others = [k for k, v in res.items() if k not in ('export_key',) and ek is not None and leaks(v, ek)]
            rep.ob('R16.4', 'open: no other result field carries the export key', not others, str(others), w, sn)
        s = api_summary(ctx, sn, 'slog_start')
        w = where_of(s)
        for p in s.ok_paths:
            res = fields(p.payload)
            state = res.get('state')
            secs = [v for v in subterms(state, lambda t: t[0] == 'app' and t[1] in ('Expand', 'Hash'))]
            tops = [k for k in secs if not any(k != o and contains(o, k) for o in secs)]
            allsec = set(tops)
            for k in tops:
                e = app_args(k, 'Expand')
                if e is not None:
                    allsec.add(e[0])
            for st in allsec:
                if app_args(st, 'Hash') is not None:
                    continue   # the transcript hash is public data
                bad = leaks(res.get('message'), st)
                n_flow += int(not bad)
                rep.ob('R16.3', 'credential response does not carry a server session secret outside a one-way function', not bad,
                       'secret %s' % show(st)[:200], w, sn)
    ns = len(ctx.suite_names)
    rep.floor('R16.1', 'export key terms', n_exp, 16 * ns)
    rep.floor('R16.3', 'secret-flow obligations', n_flow, ns * 100)
    from rules import profile
    profile.check(ctx, rep, 'R16.P', ['creg_start', 'clog_start', 'creg_finish', 'clog_finish', 'slog_start'])
    from rules import lclone
    lclone.check(ctx, rep, 'R16.C')
    return rep
