"""L-PURE / L-PARAM: no ambient state, entropy, time, I/O; parametricity (DESIGN 4.1, 4.2)."""
import os
import re
import core
import facts
from terms import *  # noqa

DENY = [
    (r'^getrandom::', 'operating-system entropy'),
    (r'^rand::rngs::', 'rand built-in generators (OsRng/ThreadRng/StdRng/...)'),
    (r'^rand::rng::', 'rand thread-local generator'),
    (r'^rand::thread_rng', 'rand thread-local generator'),
    (r'^rand::random', 'rand thread-local generator'),
    (r'^rand_core::os::', 'operating-system entropy'),
    (r'^rand_chacha::', 'a locally constructed generator'),
    (r'^std::time::', 'wall clock'),
    (r'^std::env::', 'process environment'),
    (r'^std::fs::', 'file system'),
    (r'^std::net::', 'network'),
    (r'^std::thread::', 'threads / thread-locals'),
    (r'^std::process::', 'process'),
    (r'^std::hash::random::', 'RandomState'),
    (r'^std::collections::hash::map::RandomState', 'RandomState'),
    (r'^std::sys::', 'operating system'),
    (r'^std::io::', 'I/O'),
    (r'^core::any::', 'TypeId / Any (breaks parametricity)'),
    (r'^core::intrinsics::.*type_id', 'TypeId'),
]
RNG_TRAITS = ('rand_core::RngCore', 'rand_core::CryptoRng', 'rand_core::CryptoRngCore')


def chain(S, iid):
    out = []
    seen = 0
    while iid is not None and seen < 60:
        n = S.bodies.get(iid) or S.leaves.get(iid)
        if n is None:
            break
        out.append(n.get('path') or n.get('inst'))
        iid = n.get('parent')
        seen += 1
    return ' <- '.join(x[:90] for x in out)


def denied_instances(S):
    out = []
    for n in list(S.bodies.values()) + list(S.leaves.values()):
        dp = n.get('dpath', '')
        for pat, why in DENY:
            if re.search(pat, dp):
                out.append((n, why))
    return out


def static_problems(gg):
    out = []
    for st in gg['statics']:
        if st['mutable'] or not st['freeze'] or st['thread_local']:
            out.append((st['path'], st))
    return out


def check(ctx, rep, rule='L-PURE'):
    g = ctx.g
    if os.path.isdir(facts.FIXTURES):
        from rules import fixtures
        rep.extra['fixture_selftest_purity'] = fixtures.selftest_purity(ctx)
    # statics / unsafe / features (generic facts of the production library)
    configs = ['g-all'] + (['g-default', 'g-nodefault'] if ctx.tier == 'thorough' else [])
    for cfg in configs:
        gg = facts.load(ctx.dir, cfg)
        for st in gg['statics']:
            ok = (not st['mutable']) and st['freeze'] and not st['thread_local']
            rep.ob(rule, 'static %s is immutable, Freeze, not thread-local [%s]' % (st['path'], cfg), ok, str(st), core.rel(st['span']), None)
        for u in gg['unsafes']:
            rep.ob(rule, 'no unsafe code in the production library: %s in %s [%s]' % (u['kind'], u['path'], cfg), False, str(u), core.rel(u['span']), None)
        rep.ob(rule, 'no specialization / unstable features enabled [%s]' % cfg,
               not [f for f in gg.get('features', []) if 'specialization' in f], str(gg.get('features')), '', None)
    n_inst = n_rng = 0
    for sn in ctx.suite_names:
        S = ctx.suite(sn)
        nodes = list(S.bodies.values()) + list(S.leaves.values())
        n_inst += len(nodes)
        for n, why in denied_instances(S):
            rep.ob(rule, 'no reachable use of ' + why, False, 'reachable: %s' % chain(S, n['id']), '', sn)
        # every RNG method instance reached has the harness generator (or a &mut chain to it) as receiver
        for n in nodes:
            label = n.get('path') or n.get('inst') or ''
            m = re.match(r'^<(.*) as (?:opaque_ke::rand|rand|rand_core)::(RngCore|CryptoRng)>::', label)
            if m:
                recv = m.group(1)
                core_ty = recv.replace('&mut ', '').strip()
                n_rng += 1
                rep.ob(rule, "RNG method instances are only reached on the caller's generator type", core_ty in ('TapeRng', 'suites::TapeRng'),
                       'receiver %s: %s' % (recv, chain(S, n['id'])), '', sn)
    rep.floor(rule, 'instances inspected', n_inst, 1000 * len(ctx.suite_names))
    rep.floor(rule, 'RNG method instances seen', n_rng, len(ctx.suite_names))
