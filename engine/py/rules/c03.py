"""C03 — server completes login only on the matching client finalization (DESIGN section 5, C03)."""
import core
import rfc
from terms import *  # noqa
from rules.common import *  # noqa

EXPLANATION = (
    "Must-pass-through analysis of ServerLogin::finish over monomorphic MIR (one instance per suite): every syntactic "
    "path to an Ok return must pass a successful full-length MAC comparison whose key and message are whole fields of the "
    "stored state and whose tag is a whole field of the supplied message; the released key must be a field of the state; "
    "every path through the failed comparison must return InvalidLoginError. Producer side: the three state fields stored by "
    "ServerLogin::start are compared with the RFC 9807 key schedule instantiated with the code's own IKM and preamble terms. "
    "No code is executed; terms are uninterpreted."
)
ASSUMPTIONS = [
    "MAC unforgeability / hash collision resistance (the property is decided up to them)",
    "model table for digest/hmac/hkdf (DESIGN 3.5)",
    "rustc MIR construction and the fact extractor",
]


def field_path(t, root):
    names = []
    while t is not None and t[0] == 'fld':
        names.append(t[2])
        t = t[1]
    if t != root:
        return None
    return list(reversed(names))


def lookup(v, names):
    for n in names:
        f = fields(v)
        if n not in f:
            return None
        v = f[n]
    return v


def run(ctx):
    rep = core.Report('C03', ctx.tier, EXPLANATION, ASSUMPTIONS)
    n_guard = n_released = n_state = 0
    for sn in ctx.suite_names:
        fin = api_summary(ctx, sn, 'slog_finish')
        w = where_of(fin)
        rep.ob('R03.0', 'ServerLogin::finish summary complete', fin.complete and bool(fin.ok_paths),
               'paths=%d ok=%d notes=%s' % (len(fin.paths), len(fin.ok_paths), fin.notes), w, sn)
        SELF, MSG = Sym('self'), Sym('finalization')
        link = None
        for p in fin.ok_paths:
            checks = [c for c in mac_checks(p)
                      if is_whole_field_of(c[1], SELF) and is_whole_field_of(c[2], SELF) and c[1] != c[2]
                      and c[1][0] == 'fld' and c[2][0] == 'fld'
                      and is_whole_field_of(c[3], MSG) and c[3][0] == 'fld']
            good = bool(checks)
            n_guard += int(good)
            rep.ob('R03.1', 'ServerLogin::finish Ok path dominated by full MAC comparison (state key, state message, message tag)',
                   good, 'Ok path without such a comparison; MAC events on path: %s' % [show(e) for _, e in p.macverifies()] if not good else
                   'MacVerify(%s, %s, %s)' % (show(checks[0][1]), show(checks[0][2]), show(checks[0][3])), w, sn,
                   sample=('MacVerify(%s; %s; %s):ok' % (show(checks[0][1]), show(checks[0][2]), show(checks[0][3]))) if good else None)
            res = fields(p.payload)
            sk = res.get('session_key')
            rel_ok = sk is not None and is_whole_field_of(sk, SELF) and sk[0] == 'fld' and (not checks or sk not in (checks[0][1], checks[0][2]))
            n_released += int(rel_ok)
            rep.ob('R03.2', 'released session_key is a field of the stored state', rel_ok,
                   'session_key = %s' % show(sk), w, sn, sample=show(sk))
            # the comparison must precede construction of the result
            ci = p.index_of_construct('ServerLoginFinishResult')
            if checks and ci is not None:
                rep.ob('R03.1', 'comparison precedes construction of ServerLoginFinishResult', checks[0][0] < ci,
                       'result constructed at event %d before comparison at %d' % (ci, checks[0][0]), w, sn)
            if good and rel_ok:
                link = (field_path(checks[0][1], SELF), field_path(checks[0][2], SELF), field_path(sk, SELF))
        for p in fin.err_paths:
            if failed_mac_checks(p):
                rep.ob('R03.2', 'failed comparison returns InvalidLoginError', p.payload == INVALID_LOGIN,
                       'returns %s' % show(p.payload), w, sn)
        # R03.6 the property fixes the outcome for *every* non-matching finalization: the invalid-login error.  Any other Err return must
        # come from a failing dependency call (HMAC key set-up), never from a test of the message that runs before the comparison
        for p in fin.err_paths:
            dep = any(e[0] == 'outcome' and e[2] in ('Err', 'None') for e in p.events)
            rep.ob('R03.6', 'every refusal of ServerLogin::finish is the invalid-login error (or a failing dependency call)',
                   p.payload == INVALID_LOGIN or dep, 'returns %s after %s' % (show(p.payload)[:120], [(show(e[1])[:80], e[2]) for e in p.events if e[0] == 'assume'][:3]), w, sn)
        # no Ok path may come from a failed comparison
        for p in fin.ok_paths:
            rep.ob('R03.1', 'no Ok path passes a failed comparison', not failed_mac_checks(p), 'Ok path after failed MAC comparison', w, sn)

        # producer side
        st = api_summary(ctx, sn, 'slog_start')
        w2 = where_of(st)
        rep.ob('R03.0', 'ServerLogin::start summary complete', st.complete and bool(st.ok_paths),
               'paths=%d ok=%d notes=%s' % (len(st.paths), len(st.ok_paths), st.notes), w2, sn)
        Nh = suite_params(sn)['Nh']
        for p in st.ok_paths:
            res = fields(p.payload)
            state = res.get('state')
            from rules import anatomy as _an
            _pre, _mac = _an.server_login_mac_preimage(p)
            smac = App('Mac', *_mac) if _mac is not None else None
            a = app_args(smac, 'Mac')
            okshape = a is not None and app_args(a[1], 'Hash') is not None
            if not okshape or link is None:
                rep.ob('R03.3', 'server MAC term has the shape Mac(k, Hash(preamble))', False,
                       'mac = %s; link=%s' % (show(smac)[:300], link), w2, sn)
                continue
            pre = a[1][2][0]
            # IKM: innermost Extract under the MAC key
            ex = find_apps(a[0], 'Extract')
            if not ex:
                rep.ob('R03.3', 'server MAC key descends from an Extract', False, show(a[0])[:300], w2, sn)
                continue
            ikm = ex[0][2][1] if len(ex) else None
            ks = rfc.key_schedule(ikm, pre, Nh)
            exp = {'key': ks['km3'], 'msg': ks['hpre2'], 'released': ks['session_key']}
            for role, names in zip(('key', 'msg', 'released'), link):
                got = lookup(state, names)
                good = got == exp[role]
                n_state += int(good)
                rep.ob('R03.3', 'state field used as %s at finish equals the RFC key schedule value' % role, good,
                       'field %s = %s ; expected %s' % ('.'.join(names), show(got)[:400], show(exp[role])[:400]), w2, sn,
                       sample='%s = %s' % ('.'.join(names), show(got)[:300]))
    ns = len(ctx.suite_names)
    rep.floor('R03.1', 'guarded Ok paths', n_guard, ns)
    rep.floor('R03.2', 'released keys', n_released, ns)
    rep.floor('R03.3', 'state fields', n_state, 3 * ns)
    from rules import profile
    profile.check(ctx, rep, 'R03.P', ['slog_finish', 'slog_start'])
    from rules import witness
    witness.check(ctx, rep, 'R03.W', ['WMoveServer', 'WStatePrivate'])
    from rules import lclone
    lclone.check(ctx, rep, 'R03.C')
    return rep
