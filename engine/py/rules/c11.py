"""C11 — invalid group elements and scalars are never accepted (DESIGN section 5, C11)."""
import json
import core
import re
import interp
from terms import *  # noqa
from rules.common import *  # noqa
from rules import anatomy as an

EXPLANATION = (
    "Construction-discipline + guard analysis. R11.1 (generic MIR of the production library, all features): every site that builds the key newtypes PublicKey / PrivateKey "
    "— aggregates and the tuple constructors used as function values — is enumerated, and the payload term at each must come from a validating source (Ok value of "
    "KeGroup::deserialize_pk/_sk or derive_auth_keypair, KeGroup::public_key of a valid secret, random_sk, or a copy of an existing newtype's payload); this includes the two "
    "hand-written serde Deserialize impls (serde parity). R11.2 (concrete type layouts, per suite): in the type trees of the messages and states a raw group type occurs "
    "only inside the key newtypes or voprf's element types. R11.3 (monomorphic MIR, per key-exchange group): on every Ok path of deserialize_pk / deserialize_sk / "
    "derive_auth_keypair the required filters were passed — ristretto: successful decompression and != identity, canonical scalar and != 0; NIST: from_sec1_bytes / from_slice "
    "succeeded (dependency summary: on-curve, in range, non-identity / non-zero); Curve25519: a small-order guard (cofactor multiple != identity, or is_small_order / "
    "is_torsion_free), clamp fixed point and != 0. R11.5: OPRF elements of login messages pass the explicit identity test."
)
ASSUMPTIONS = ["the filters' arithmetic (dalek decompress, from_sec1_bytes, from_slice) is the dependencies' (summaries DESIGN 3.6)",
               "voprf's own element/scalar decoders reject identity / zero / out-of-range (summary)"]

KEG = 'opaque_ke::key_exchange::group::KeGroup'
NEWTYPES = ('opaque_ke::keypair::PublicKey', 'opaque_ke::keypair::PrivateKey')


def valid_payload(t, depth=0):
    """is this term a validated group value?"""
    if t is None or depth > 6:
        return False
    # Ok value of a validating decoder / derivation
    if t[0] == 'fld' and t[2] == '0' and t[1][0] == 'as' and t[1][2] in ('Ok', 'Some') and t[1][1][0] == 'app':
        return t[1][1][1] in ('KeGroup::deserialize_pk', 'KeGroup::deserialize_sk', 'KeGroup::derive_auth_keypair')
    if t[0] == 'app' and t[1] == 'KeGroup::random_sk':
        return True
    if t[0] == 'app' and t[1] == 'KeGroup::public_key':
        return valid_payload(t[2][0], depth + 1)
    # payload of an existing newtype value: self.0 / pk.0 / clone of it
    if t[0] == 'fld' and t[2] == '0':
        return True
    return False


def from_params_only(t, params):
    """the term is built from the function's own parameters (possibly through KeGroup::public_key) and nothing validated"""
    if t is None:
        return False
    if t in params:
        return True
    if t[0] == 'app' and t[1] == 'KeGroup::public_key':
        return from_params_only(t[2][0], params)
    if t[0] == 'fld':
        # a field of a parameter (a private helper struct / tuple / captured variable of a closure handed in by the caller)
        return from_params_only(t[1], params)
    return False


def construction_sites(g):
    sites = []
    for b in g['bodies']:
        kinds = set()
        for bb in b['blocks']:
            if bb['cleanup']:
                continue
            for s in bb['stmts']:
                if s['k'] == 'assign' and s['rv'].get('k') == 'aggr' and s['rv'].get('adt_dpath') in NEWTYPES:
                    kinds.add('aggregate')
            js = json.dumps(bb)
            for nt in NEWTYPES:
                if nt + '::{constructor#0}' in js:
                    kinds.add('ctor-fn')
        if kinds:
            sites.append((b, sorted(kinds)))
    return sites


def group_filters(ctx, rep, rule, sn, names=('deserialize_pk', 'deserialize_sk', 'derive_auth_keypair')):
    """every Ok path of the group's decoders / seeded derivation passed the filters that make the result a valid key (C11 R11.3, C19 R19.4)"""
    S = ctx.suite(sn)
    P = suite_params(sn)
    n_filters = 0
    # R11.3
    def impl(name, default=False):
        bs = [b for b in S.bodies.values() if b.get('name') == name and (b.get('impl_trait_dpath') == KEG or (default and b.get('trait_default')))]
        return bs
    ke = P['ke']
    for name in names:
        bs = impl(name, default=True)
        if len(bs) != 1:
            rep.ob(rule, 'KeGroup::%s instance found' % name, False, 'instances=%d' % len(bs), '', sn)
            continue
        s = ctx.summary(sn, bs[0]['generic_path'], params=[Sym('bytes')])
        w = where_of(s)
        rep.ob(rule, 'KeGroup::%s summarised with an Ok path' % name, s.complete and bool(s.ok_paths), str(s.notes), w, sn)
        for p in s.ok_paths:
            outs = {e[1][1]: e[2] for e in p.events if e[0] == 'outcome' and e[1][0] == 'app'}
            assumes = [(e[1], e[2]) for e in p.events if e[0] == 'assume']
            val = p.payload

            def ne_const(pred):
                """an assumed (eq|ct_eq)(candidate, constant) == false where pred(constant side)"""
                for t, v in assumes:
                    if v == 0 and t[0] == 'app' and t[1] in ('eq', 'ct_eq'):
                        a, b = t[2]
                        for x, y in ((a, b), (b, a)):
                            if pred(x) and (contains(y, val) or y == val or mentions(y, Sym('bytes'))):
                                return True
                return False
            is_ident = lambda x: x[0] == 'app' and x[1].endswith('Identity::identity')
            is_zero = lambda x: (x[0] == 'bytes' and set(x[1]) <= {0} and len(x[1]) >= 16) or (x[0] == 'app' and x[1].endswith('to_bytes') and x[2] and x[2][0][0] == 'bytes' and set(x[2][0][1]) <= {0}) or (
                    x[0] == 'unk' and str(x[1]).endswith('scalar::Scalar::ZERO'))     # the dependency's zero constant passed by value (not evaluated to bytes by the extractor)
            checks = []
            if name == 'deserialize_pk':
                if ke == 'r255':
                    checks = [('decompression succeeded', outs.get('curve25519_dalek::ristretto::CompressedRistretto::decompress') == 'Some'),
                              ('!= identity', ne_const(is_ident))]
                elif ke == 'c25519':
                    def small_order_guard():
                        for t, v in assumes:
                            if t[0] == 'app' and t[1] in ('eq', 'ct_eq') and v == 0:
                                a, b = t[2]
                                for x, y in ((a, b), (b, a)):
                                    if is_ident(x) and y[0] == 'app' and (y[1] in ('mul',) or 'mul_by_cofactor' in y[1] or 'mul_clamped' in y[1] or 'mul_bits_be' in y[1]) and mentions(y, Sym('bytes')):
                                        return True
                            if t[0] == 'app' and ('is_small_order' in t[1]) and v == 0 and mentions(t, Sym('bytes')):
                                return True
                            if t[0] == 'app' and ('is_torsion_free' in t[1]) and v == 1 and mentions(t, Sym('bytes')):
                                return True
                        return False
                    checks = [('Curve25519::deserialize_pk: every Ok path passes a small-order guard', small_order_guard())]
                else:
                    checks = [('from_sec1_bytes succeeded (on-curve, in range, non-identity)', outs.get('elliptic_curve::public_key::PublicKey::from_sec1_bytes') == 'Ok')]
            elif name == 'deserialize_sk':
                if ke == 'r255':
                    canon = any(e[0] == 'outcome' and e[2] == 'Some' and find_apps(e[1], 'curve25519_dalek::scalar::Scalar::from_canonical_bytes') for e in p.events)
                    checks = [('canonical scalar', canon), ('!= 0', ne_const(is_zero))]
                elif ke == 'c25519':
                    fixed = any(t[0] == 'app' and t[1] == 'eq' and v == 1 and any(x[0] == 'app' and 'clamp_integer' in x[1] for x in t[2]) and Sym('bytes') in t[2] for t, v in assumes)
                    checks = [('clamping fixed point', fixed), ('!= 0', ne_const(is_zero))]
                else:
                    checks = [('from_slice succeeded (non-zero, below the order)', outs.get('elliptic_curve::secret_key::SecretKey::from_slice') == 'Ok')]
            else:
                if ke == 'c25519':
                    checks = [('clamped', bool(find_apps(val, 'curve25519_dalek::scalar::clamp_integer')))]
                else:
                    nz = any(t[0] == 'app' and t[1] == 'KeGroup::is_zero_scalar' and v == 0 and t[2][0] == val for t, v in assumes)
                    checks = [('Ok only after is_zero_scalar(result) = false', nz)]
            for what, good in checks:
                n_filters += int(good)
                inst = what if what.startswith('Curve25519') else 'KeGroup::%s (%s): %s' % (name, ke, what)
                rep.ob(rule, inst, good, 'filter not passed on an Ok path; assumptions on the path: %s ; outcomes: %s' % (
                    [(show(t)[:100], v) for t, v in assumes][:6], outs), w, sn, sample='%s -> %s' % (inst, show(val)[:100]))
    return n_filters


def run(ctx):
    rep = core.Report('C11', ctx.tier, EXPLANATION, ASSUMPTIONS)
    # ---- R11.1 on generic facts
    import facts
    configs = ['g-all'] + (['g-default', 'g-nodefault'] if ctx.tier == 'thorough' else [])
    for cfg in configs:
        g = facts.load(ctx.dir, cfg)
        GS = interp.GSuite(g)
        sites = construction_sites(g)
        n_sites = 0
        deferred = {}
        work = list(sites)
        done_paths = set()
        while True:
            if not work:
                # callers of private helpers that wrap their argument become sites themselves
                for cp in sorted(set().union(*deferred.values())) if deferred else []:
                    if cp not in done_paths:
                        cb = [c for c in g['bodies'] if c['path'] == cp]
                        if cb:
                            work.append((cb[0], ['via-helper']))
                if not work:
                    break
            b, kinds = work.pop(0)
            if b['path'] in done_paths:
                continue
            done_paths.add(b['path'])
            body = GS.by_generic['opaque_ke::' + b['path']][0]
            params = [Sym('arg%d' % i) for i in range(1, body['argc'] + 1)]
            I, outs = interp.summarize(GS, body, params, adts=ctx.adts)
            w = core.body_loc(body)
            evs = []
            for st, ret in outs:
                for e in st.events:
                    if e[0] in ('construct', 'construct-fn') and e[1] in NEWTYPES and len(e) > 2:
                        evs.append(e)
            rep.ob('R11.1', 'construction site in %s is reached by the analysis [%s]' % (b['path'], cfg), bool(evs) and not any(n.startswith('STOP') for n in I.notes),
                   'no construct event on any path (notes %s)' % I.notes, w, None)
            # a crate-private helper that wraps its *argument* is judged at its call sites (the interpreter inlines it into each caller,
            # which is analysed as a site of its own below); a public function doing so would be a raw constructor and is judged here
            private = not str(body.get('vis', 'Public')).startswith('Public')
            callers = [c for c in g['bodies'] if c is not b and any(
                (not bb['cleanup']) and bb['term'].get('k') == 'call' and bb['term']['callee'].get('dpath') == b.get('dpath') for bb in c['blocks'])]
            if '::{closure' in b['path']:
                # a closure is code of the function that defines it (the interpreter runs it where that function applies it)
                parent = b['path'].split('::{closure')[0]
                callers = [c for c in g['bodies'] if c['path'] == parent]
                private = True
            elif b.get('impl_trait_dpath') in ('core::convert::From', 'core::convert::Into', 'core::convert::TryFrom') and not callers:
                # a conversion FROM a crate-private type cannot be called from outside the crate: it is a private helper, judged where
                # the crate converts (`From::from(x)` / `x.into()` with that source type)
                m = re.search(r'(?:From|Into|TryFrom)<([A-Za-z_:0-9]+)', b['path'])
                src = m.group(1) if m else None
                src_adt = [a for a in g['adts'] if a['path'] == src]
                if src_adt and 'Restricted' in str(src_adt[0].get('vis', 'Public')):
                    private = True
                    callers = [c for c in g['bodies'] if c is not b and any(
                        (not bb['cleanup']) and bb['term'].get('k') == 'call' and bb['term']['callee'].get('trait_dpath') in ('core::convert::From', 'core::convert::Into', 'core::convert::TryFrom', 'core::convert::TryInto')
                        and any(str(a).startswith(src) for a in (bb['term']['callee'].get('args') or [])) for bb in c['blocks'])]
            for e in evs:
                val = e[-1]
                payload = dict(val[3]).get('0') if (val is not None and val[0] == 'adt') else None
                good = valid_payload(payload)
                if not good and private and callers and from_params_only(payload, params):
                    deferred.setdefault(b['path'], set()).update(c['path'] for c in callers)
                    rep.ob('R11.1', '%s: private helper wrapping its argument; judged at its %d call site(s) [%s]' % (b['path'], len(callers), cfg), True,
                           'callers: %s' % sorted(c['path'] for c in callers), w, None)
                    continue
                n_sites += int(good)
                rep.ob('R11.1', '%s: payload of %s comes from a validating source [%s]' % (b['path'], e[1].split('::')[-1], cfg), good,
                       'payload = %s' % show(payload)[:300], w, None, sample='%s(%s)' % (e[1].split('::')[-1], show(payload)[:160]))
        # today 8 functions construct the newtypes (6 without serde); the floor is the number of distinct *roles* that must exist in any
        # arrangement (decode a public key, decode a private key, derive a public key, generate a pair) - merging sites is a refactoring
        floor = 4
        rep.floor('R11.1', 'functions constructing the key newtypes [%s]' % cfg, len(sites), floor)
    # field visibility of the newtypes (W-NEWTYPE is the compile-fail witness; this is the type-level fact)
    for nt in NEWTYPES:
        a = ctx.adt_fields.get(nt)
        priv = a is not None and all('Restricted' in f['vis'] for v in a['variants'] for f in v['fields'])
        rep.ob('R11.1', '%s payload field is private' % nt.split('::')[-1], priv, str(a)[:200], '', None)
    # ---- per suite
    n_filters = 0
    for sn in ctx.suite_names:
        P = suite_params(sn)
        S = ctx.suite(sn)
        # R11.2
        raw = set()
        for ty, t in S.types.items():
            if t and t['dpath'] in NEWTYPES:
                raw.add(t['variants'][0]['fields'][0]['ty'])
        raw = set(r for r in raw if not r.startswith('['))
        rep.ob('R11.2', 'raw group types identified from the newtypes', len(raw) >= 2 or P['ke'] == 'c25519', str(sorted(raw)), '', sn)
        n_seen = 0
        gadts = {a['dpath']: a for a in ctx.g['adts']}
        de_targets = set(m.group(1) for b in ctx.g['bodies'] for m in [re.search(r"Deserialize<'de> for ([A-Za-z_:0-9]+)", b['path'])] if m)
        for ty, t in S.types.items():
            if not t or t['crate'] != 'opaque_ke' or t['dpath'] in NEWTYPES:
                continue
            ga = gadts.get(t['dpath'])
            # a crate-private type without a serde Deserialize impl is only ever built by the crate's own code (its construction sites
            # are what R11.1 follows): a transient holder of already-validated raw values is not an entry point for unvalidated ones
            transient = ga is not None and 'Restricted' in str(ga.get('vis', 'Public')) and ga['path'] not in de_targets
            for v in t['variants']:
                for f in v['fields']:
                    n_seen += 1
                    rep.ob('R11.2', 'no raw group-typed field outside the key newtypes: %s.%s' % (t['dpath'].split('::')[-1], f['name']),
                           f['ty'] not in raw or transient, 'field type %s' % f['ty'], '', sn)
        rep.ob('R11.2', 'fields inspected', n_seen >= 30, 'fields=%d' % n_seen, '', sn)
        n_filters += group_filters(ctx, rep, 'R11.3', sn)
        # R11.5 explicit identity test on OPRF elements of login messages
        for nm in ('CredentialRequest', 'CredentialResponse'):
            d = ctx.summary(sn, DECODERS[nm] + '::deserialize', params=[Sym('input')])
            for p in d.ok_paths:
                idt = [e for e in p.events if e[0] == 'assume' and e[2] == 0 and e[1][0] == 'app' and e[1][1] == 'ct_eq' and App('identity_elem') in e[1][2]]
                rep.ob('R11.5', '%s::deserialize: OPRF element passed the identity test' % nm, bool(idt), '', where_of(d), sn)
    ns = len(ctx.suite_names)
    rep.floor('R11.3', 'filters established', n_filters, 4 * ns)
    # R11.Z the zero test DeriveDiffieHellmanKeyPair filters with is a test of the derived scalar itself against zero
    n_z = sum(an.kegroup_zero_test_reviewed(ctx, rep, 'R11.Z', sn) for sn in ctx.suite_names)
    rep.floor('R11.Z', 'KeGroup::is_zero_scalar instances reviewed (every suite whose key-exchange group is not Curve25519)', n_z,
              sum(1 for sn in ctx.suite_names if suite_params(sn)['ke'] != 'c25519'))
    from rules import profile
    profile.check(ctx, rep, 'R11.P', ['opaque_ke::keypair::PublicKey::<KG>::deserialize', '<opaque_ke::keypair::PrivateKey<KG> as opaque_ke::keypair::SecretKey<KG>>::deserialize'])
    from rules import witness
    witness.check(ctx, rep, 'R11.W', ['WNewtypePk', 'WNewtypeSk'])
    an.vgroup_forwarding(ctx, rep, 'R11.D', only=('deserialize_elem', 'deserialize_scalar', 'is_zero_scalar', 'identity_elem'))
    return rep
