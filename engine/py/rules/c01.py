"""C01 — honest registration + login always agree on keys (DESIGN section 5, C01)."""
import core
from terms import *  # noqa
from rules.common import *  # noqa
from rules import anatomy as an

EXPLANATION = (
    "Mirror-agreement analysis by composition, per suite, on the production (cfg(not(test))) monomorphic MIR. The harness function that chains an honest registration and an "
    "honest login — every role with its own symbolic parameter (password, credential id, context, identities, KSF instance) and one RNG — is itself interpreted over the term "
    "domain with the three stated dependency equations (DH commutativity, OPRF unblinding, decode(encode(x)) = x) and the XOR identity. On the single all-Ok path: (1) each of the "
    "three MAC comparisons (envelope open, server MAC at the client, client MAC at the server) compares a tag that is syntactically the MAC of the verifier's own key and message, "
    "so none of them can fail; (2) client and server session keys are the same term; (3) the export key and the server public key returned at login are the terms returned at "
    "registration, and the latter is the setup's public key; (4) the production blinding produces state and message from one voprf blind call. R01.6: in the eight protocol steps "
    "every Err return is caused by a failing outcome of a dependency call, a failed MAC/identity/reflection comparison, or the integer encoder — never by a crate-local "
    "comparison on an input length (no spurious refusals within the supported ranges)."
)
ASSUMPTIONS = ["DH commutativity, OPRF unblinding, encoder round trip of the dependencies (DESIGN 3.2-7 a-c; exactly what C19 / part of C14 are about)",
               "primitives compute their names (HKDF, HMAC, hash)", "KeyPair.pk = public_key(KeyPair.sk) for reloaded setups"]

FLOW_PARAMS = ['pw', 'cred', 'ctx', 'idu', 'ids', 'rng', 'ksf']


def run(ctx):
    rep = core.Report('C01', ctx.tier, EXPLANATION, ASSUMPTIONS)
    n_mac = n_keys = 0
    suites = list(ctx.suite_names) + ['argon2']
    for sn in suites:
        S = ctx.suite(sn)
        gps = [gp for gp in S.by_generic if gp.endswith('__flow')]
        rep.ob('R01.0', 'honest-flow harness function present', len(gps) == 1, str(gps), '', sn)
        if len(gps) != 1:
            continue
        s = ctx.summary(sn, gps[0], params=[Sym(x) for x in FLOW_PARAMS], honest=True)
        some = [p for p in s.paths if p.value is not None and p.value[0] == 'adt' and p.value[2] == 'Some']
        shapes = set()
        for p in some:
            shapes.add(tuple(sorted((show(k), v) for k, v in p.state.assume.items() if k[0] == 'sym')))
        rep.ob('R01.0', 'composition has exactly one all-Ok path for each of the 16 shapes (context, client id, server id, KSF instance: absent or explicit)',
               len(some) == 16 and len(shapes) == 16 and s.complete, 'Some paths=%d shapes=%d of %d paths, notes=%s' % (len(some), len(shapes), len(s.paths), s.notes), '', sn)
        for p in some:
          shape = ','.join('%s=%s' % (k, 'Some' if v else 'None') for k, v in sorted((show(k), v) for k, v in p.state.assume.items() if k[0] == 'sym'))
          sn_ = sn
          sn = '%s[%s]' % (sn_, shape)
          try:
            # successful full-length MAC comparisons in either spelling: Mac::verify*, or ct_eq / == on the finalized tag
            mvs = mac_checks(p)
            rep.ob('R01.1', 'three MAC comparisons on the honest path', len(mvs) == 3, '%d' % len(mvs), '', sn)
            for _, key, msg, tag, how, sp in mvs:
                want = App('Mac', key, msg)
                good = tag == want
                if not sp:
                    sp = '(%s on the finalized tag)' % how
                n_mac += int(good)
                rep.ob('R01.1', 'honest MAC comparison at %s cannot fail: tag is the MAC of the verifier\'s own key and message' % core.rel(sp).split(':')[0], good,
                       'tag      %s\nexpected %s' % (show(tag)[:700], show(want)[:700]), core.rel(sp), sn, sample='tag == Mac(k, m) at %s' % core.rel(sp))
            res = p.value[3][0][1]
            if res is None or res[0] != 'tuple' or len(res[1]) != 4:
                rep.ob('R01.2', 'flow result tuple recognised', False, show(res)[:200], '', sn)
                continue
            reg, cfin, sfin, setup = [fields(x) for x in res[1]]
            good = cfin.get('session_key') is not None and cfin.get('session_key') == sfin.get('session_key')
            n_keys += int(good)
            rep.ob('R01.2', 'client and server session keys are the same term', good,
                   'client %s\nserver %s' % (show(cfin.get('session_key'))[:500], show(sfin.get('session_key'))[:500]), '', sn)
            good = reg.get('export_key') is not None and reg.get('export_key') == cfin.get('export_key')
            n_keys += int(good)
            rep.ob('R01.3', 'export key at login is the export key of registration', good,
                   'registration %s\nlogin        %s' % (show(reg.get('export_key'))[:400], show(cfin.get('export_key'))[:400]), '', sn)
            spk = setup_public_key(ctx, sn_, res[1][3])
            good = reg.get('server_s_pk') is not None and reg.get('server_s_pk') == cfin.get('server_s_pk') == spk
            n_keys += int(good)
            rep.ob('R01.3', "server public key at registration = at login = the setup's public key", good,
                   'registration %s ; login %s ; setup %s' % (show(reg.get('server_s_pk'))[:200], show(cfin.get('server_s_pk'))[:200], show(spk)[:200]), '', sn)
            # R01.5 production blind: one voprf blind call per start, on the password and the caller's rng
            blinds = p.calls('voprf::OprfClient::blind')
            det = p.calls('voprf::OprfClient::deterministic_blind_unchecked')
            good = len(blinds) == 2 and not det and all(e[2][0] == Sym('pw') and is_rng_draw(e[2][1]) for _, e in blinds) and blinds[0][1][2][1] != blinds[1][1][2][1]
            rep.ob('R01.5', 'production blinding: one voprf blind(password, rng) per start step, two distinct draws', good,
                   'blind calls %s ; deterministic blinds %d' % ([show(e[2]) for _, e in blinds], len(det)), '', sn)
            # every fallible step succeeded on this path without assuming anything but dependency outcomes
          finally:
            sn = sn_
    # R01.7 the DH equation used by the composition is only assumed for reviewed group operations
    for sn in ctx.suite_names:
        an.group_dh_reviewed(ctx, rep, 'R01.7', sn)
    # R01.6 no spurious refusals: a refusal must come from a dependency failure, a MAC comparison, the integer encoder, or the one
    # comparison between honest values that the protocol defines — the reflected-value test between the client's blinded element and the
    # response's evaluation element (two different group elements in every honest run, up to a negligible coincidence).  A comparison of
    # any other pair of values that *decides* an Err (seed C01/e: "server nonce equals client nonce") is a refusal honest runs can hit.
    for sn in ctx.suite_names:
        for which in ('creg_start', 'creg_finish', 'sreg_start', 'clog_start', 'clog_finish', 'slog_start', 'slog_finish'):
            s = api_summary(ctx, sn, which)
            w = where_of(s)
            ev = None
            if which in ('clog_finish', 'creg_finish'):
                ev = role_term(ctx, sn, s, {'clog_finish': 3, 'creg_finish': 4}[which], Sym('response'), 'eval')
            for q in s.err_paths:
                cause = False
                bad_cmp = []
                for e in q.events:
                    if e[0] == 'outcome' and e[2] in ('Err', 'None'):
                        cause = True
                    elif e[0] == 'MacVerify' and e[1] == 'Err':
                        cause = True
                    elif e[0] == 'I2OSP' and e[1] == 'Err':
                        cause = True
                    elif e[0] == 'assume' and e[1][0] == 'app' and e[1][1] in ('ct_eq', 'eq') and len(e[1][2]) == 2:
                        x, y = e[1][2]
                        is_mac = any(t is not None and t[0] == 'app' and t[1] == 'Mac' for t in (x, y))
                        other = y if x == ev else (x if y == ev else None)
                        is_refl = ev is not None and other is not None and other[0] == 'fld' and is_whole_field_of(other, Sym('self'))
                        if e[2] == 1 and is_refl:
                            cause = True                      # ReflectedValueError
                        elif is_mac and e[2] == 0:
                            cause = True                      # a MAC comparison written with ct_eq / ==
                        elif not is_refl and not is_mac and not (x[0] == 'int' or y[0] == 'int' or x[0] == 'bytes' or y[0] == 'bytes'):
                            bad_cmp.append((show(e[1])[:120], e[2]))
                rep.ob('R01.6', '%s: every Err return has a dependency failure, a failed MAC/reflection comparison or an encoder refusal as its cause' % which, cause,
                       'Err(%s) is reached through crate-local tests only: %s' % (show(q.payload)[:120], [(show(e[1])[:100], e[2]) for e in q.events if e[0] == 'assume'][:4]), w, sn)
            # comparisons between two run-time values, on any path, other than MAC and reflection tests: none exists today; a new one is a
            # refusal (or acceptance) condition on honest values that nothing in the protocol defines
            cmps = set()
            for q in s.paths:
                for e in q.events:
                    if e[0] == 'assume' and e[1][0] == 'app' and e[1][1] in ('ct_eq', 'eq') and len(e[1][2]) == 2:
                        x, y = e[1][2]
                        if any(t[0] in ('int', 'bytes', 'zero') for t in (x, y) if t is not None) or x is None or y is None:
                            continue
                        if any(t[0] == 'app' and t[1] in ('Mac', 'identity_elem') for t in (x, y)):
                            continue
                        # classification of an error value against a constant of the crate's error enums (`err == ProtocolError::X`): one side is
                        # a closed constant, the other the Err payload of a failed step - it only selects which error is reported
                        def closed(t):
                            return not subterms(t, lambda u: u[0] in ('sym', 'app', 'unk', 'fld', 'as', 'discr'))
                        def err_payload(t):
                            return bool(subterms(t, lambda u: u[0] == 'as' and u[2] == 'Err'))
                        if (closed(x) and x[0] == 'adt' and err_payload(y)) or (closed(y) and y[0] == 'adt' and err_payload(x)):
                            continue
                        other = y if x == ev else (x if y == ev else None)
                        if ev is not None and other is not None and other[0] == 'fld' and is_whole_field_of(other, Sym('self')):
                            continue
                        cmps.add(show(e[1])[:160])
            rep.ob('R01.6', '%s: no comparison between two run-time values other than the MAC and reflected-value tests decides the outcome' % which, not cmps,
                   'comparisons: %s' % sorted(cmps)[:3], w, sn)
    ns = len(suites)
    rep.floor('R01.1', 'honest MAC comparisons established', n_mac, 3 * 16 * ns)
    rep.floor('R01.2', 'agreeing keys', n_keys, 3 * 16 * ns)
    from rules import profile
    profile.check(ctx, rep, 'R01.P', ['creg_start', 'creg_finish', 'sreg_start', 'clog_start', 'clog_finish', 'slog_start', 'slog_finish'])
    from rules import lclone
    lclone.check(ctx, rep, 'R01.C')
    from rules import lparams
    lparams.check(ctx, rep, 'R01.N')
    return rep
