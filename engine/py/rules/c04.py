"""C04 — client completes login only on the server's genuine response (DESIGN section 5, C04)."""
import core
from terms import *  # noqa
from rules.common import *  # noqa
from rules import anatomy as an

EXPLANATION = (
    "Field-coverage and dominance analysis of ClientLogin::finish over monomorphic MIR, per suite. The leaf fields of the credential "
    "response and of the client's stored request are enumerated from the concrete type layout (so a newly added field is an instance); "
    "each leaf must occur, whole, in the preamble whose hash is compared under the server MAC, or be the compared tag itself; the OPRF "
    "evaluation must additionally feed the randomized password and the masking nonce / masked response the unmasking; the successful "
    "server-MAC comparison must precede construction of any output; both client finish steps must pass the reflected-value test."
)
ASSUMPTIONS = ["collision resistance of the hash and unforgeability of the MAC (not decided)", "model table (DESIGN 3.5)"]


def path_term(root, names):
    t = root
    for n in names:
        t = ('fld', t, n)
    return t


def run(ctx):
    rep = core.Report('C04', ctx.tier, EXPLANATION, ASSUMPTIONS)
    n_resp = n_req = n_refl = 0
    for sn in ctx.suite_names:
        S = ctx.suite(sn)
        fin = api_summary(ctx, sn, 'clog_finish')
        w = where_of(fin)
        rep.ob('R04.0', 'ClientLogin::finish summary complete', fin.complete and bool(fin.ok_paths), 'notes=%s' % fin.notes, w, sn)
        RESP, SELF = Sym('response'), Sym('self')
        resp_leaves = S.leaf_paths(fin.body['locals'][3]['ty'])
        self_ty = fin.body['locals'][1]['ty']
        st = S.types.get(self_ty)
        req_leaves = []
        if st:
            for f in st['variants'][0]['fields']:
                if 'CredentialRequest' in f['ty']:
                    req_leaves = S.leaf_paths(f['ty'], (f['name'],))
        rep.ob('R04.1', 'leaf enumeration found the response and request types', len(resp_leaves) >= 8 and len(req_leaves) >= 3,
               'response leaves=%d request leaves=%d' % (len(resp_leaves), len(req_leaves)), w, sn)
        for p in fin.ok_paths:
            a = an.client_finish(p)
            macs = a['mac_ok']
            if len(macs) < 2:
                rep.ob('R04.3', 'server MAC comparison on Ok path', False, 'only %d successful MAC comparisons' % len(macs), w, sn)
                continue
            i2, k2, m2, t2 = macs[-1][:4]
            pre = an.hash_preimage(m2)
            rep.ob('R04.3', 'server MAC is over Hash(preamble)', pre is not None, 'msg = %s' % show(m2)[:300], w, sn)
            ci = p.index_of_construct('ClientLoginFinishResult')
            cf = p.index_of_construct('CredentialFinalization')
            rep.ob('R04.3', 'server MAC comparison precedes construction of outputs',
                   (ci is None or i2 < ci) and (cf is None or i2 < cf), 'verify@%d result@%s finalization@%s' % (i2, ci, cf), w, sn)
            if pre is None:
                continue
            tag_leaf = None
            for names, ty in resp_leaves:
                L = path_term(RESP, names)
                if L == t2:
                    tag_leaf = names
                    continue
                good = contains(pre, L)
                n_resp += int(good)
                rep.ob('R04.1', 'response leaf %s is in the MAC-verified preamble' % '.'.join(names), good,
                       'leaf %s (%s) does not occur in the preamble %s' % ('.'.join(names), ty, show(pre)[:600]), w, sn,
                       sample='%s in preamble' % '.'.join(names))
            n_resp += int(tag_leaf is not None)
            rep.ob('R04.1', 'the compared tag is a whole leaf of the response', tag_leaf is not None, 'tag = %s' % show(t2)[:200], w, sn)
            for names, ty in req_leaves:
                L = path_term(SELF, names)
                good = contains(pre, L)
                n_req += int(good)
                rep.ob('R04.1', 'request leaf %s is in the MAC-verified preamble' % '.'.join(names), good,
                       'leaf %s does not occur in the preamble' % '.'.join(names), w, sn)
            # R04.2 double binding
            ev = role_term(ctx, sn, fin, 3, RESP, 'eval')
            rep.ob('R04.2', 'evaluation element feeds the randomized password', ev is not None and 'rp' in a and contains(a['rp'], ev), show(a.get('rp'))[:300], w, sn)
            dec = a['decode_pk'][0][1] if a['decode_pk'] else None
            xors = find_apps(dec, 'xor') if dec is not None else []
            dec = xors[0] if xors else None
            for names, chain in S.leaf_chains(fin.body['locals'][3]['ty']):
                # every leaf outside the key-exchange message and other than the OPRF element is masking material
                if any('Ke2Message<' in c for c in chain) or chain[-1].startswith('voprf::'):
                    continue
                rep.ob('R04.2', 'response leaf %s feeds the unmasking' % '.'.join(names), dec is not None and contains(dec, path_term(RESP, names)),
                       'unmasked key bytes = %s' % show(dec)[:300], w, sn)
        # R04.6 the encodings under which leaves enter the preamble are the dependency codecs themselves (injective on accepted bytes)
        an.group_codec_purity(ctx, rep, 'R04.6', sn)
        # R04.4 reflection
        for which, ridx in (('clog_finish', 3), ('creg_finish', 4)):
            s = api_summary(ctx, sn, which)
            ev = role_term(ctx, sn, s, ridx, Sym('response'), 'eval')
            for p in s.ok_paths:
                good = False
                for i, e in enumerate(p.events):
                    if e[0] == 'assume' and e[2] == 0 and e[1][0] == 'app' and e[1][1] == 'ct_eq':
                        x, y = e[1][2]
                        other = y if x == ev else (x if y == ev else None)
                        if other is not None and is_whole_field_of(other, Sym('self')) and other[0] == 'fld':
                            good = True
                n_refl += int(good)
                rep.ob('R04.4', '%s Ok path passed the reflected-value test (blinded != evaluated)' % which, good,
                       'no ct_eq(request element, response element)=false on the path', where_of(s), sn)
    ns = len(ctx.suite_names)
    rep.floor('R04.1', 'response leaves covered', n_resp, 8 * ns)
    rep.floor('R04.1', 'request leaves covered', n_req, 3 * ns)
    rep.floor('R04.4', 'reflection checks', n_refl, 2 * ns)
    from rules import profile
    profile.check(ctx, rep, 'R04.P', ['clog_finish', 'creg_finish'])
    from rules import lclone
    lclone.check(ctx, rep, 'R04.C')
    return rep
