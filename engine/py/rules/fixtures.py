"""Self-test of the zero-expected-count scans on the fixtures crate (DESIGN 2.5 / 11.2): every `*_bad` miniature must be
reported by the same scanning code that is applied to the repository and every `*_good` twin must be silent; otherwise the
analyser is considered broken (exit 2, no verdict)."""
import os
import facts
import interp
import core

_DONE = {}


def _load(ctx):
    d = os.path.join(ctx.dir, 'fx')
    if not os.path.exists(os.path.join(d, 'm-fx.json')):
        raise facts.MachineryError('fixture facts missing')
    S = interp.Suite(facts.load(d, 'm-fx'))
    g = facts.load(d, 'g-fx')
    return S, g


def root_of(S, node):
    seen = 0
    while node is not None and seen < 80:
        p = node.get('parent')
        if p is None:
            return (node.get('path') or node.get('inst') or '')
        node = S.bodies.get(p) or S.leaves.get(p)
        seen += 1
    return ''


def selftest_purity(ctx):
    if 'purity' in _DONE:
        return _DONE['purity']
    from rules import lpure
    S, g = _load(ctx)
    denied = lpure.denied_instances(S)
    roots = set(root_of(S, n).split('::')[-1] for n, why in denied)
    problems = []
    for want in ('root_fx__entropy_bad', 'root_fx__time_bad'):
        if want not in roots:
            problems.append('deny-list scan did not report %s' % want)
    if 'root_fx__entropy_good' in roots:
        problems.append('deny-list scan reported the correct twin root_fx__entropy_good')
    sp = lpure.static_problems(g)
    names = ' '.join(x[0] for x in sp)
    for want in ('FX_COUNTER_BAD', 'FX_CELL_BAD'):
        if want not in names:
            problems.append('statics scan did not report %s' % want)
    if 'FX_LABEL_GOOD' in names:
        problems.append('statics scan reported the immutable FX_LABEL_GOOD')
    if not any('fx_unsafe_bad' in u['path'] for u in g.get('unsafes', [])):
        problems.append('unsafe scan did not report fx_unsafe_bad')
    if problems:
        raise facts.MachineryError('fixture self-test failed: ' + '; '.join(problems))
    _DONE['purity'] = {'denied_roots': sorted(roots), 'static_findings': [x[0] for x in sp], 'unsafe_findings': [u['path'] for u in g.get('unsafes', [])]}
    return _DONE['purity']


def selftest_casts_drops(ctx):
    if 'casts' in _DONE:
        return _DONE['casts']
    from rules import c12
    S, g = _load(ctx)
    found = c12.casts_and_drops(S, 'fixtures')
    fns = {}
    for gp, kind, detail, span in found:
        fns.setdefault(kind, set()).add(gp.split('::')[-1])
    problems = []
    if 'root_fx__cast_bad' not in fns.get('cast', set()):
        problems.append('narrowing-cast scan did not report root_fx__cast_bad')
    if 'root_fx__cast_good' in fns.get('cast', set()):
        problems.append('narrowing-cast scan reported root_fx__cast_good')
    if 'root_fx__drop_bad' not in fns.get('drop', set()):
        problems.append('dropped-result scan did not report root_fx__drop_bad')
    if 'root_fx__drop_good' in fns.get('drop', set()):
        problems.append('dropped-result scan reported root_fx__drop_good')
    if problems:
        raise facts.MachineryError('fixture self-test failed: ' + '; '.join(problems))
    _DONE['casts'] = {k: sorted(v) for k, v in fns.items()}
    return _DONE['casts']
