"""L-CLONE: the interpreter models `Clone::clone` as the identity on values.  For dependency types that is their contract; for the
crate's own types it is an assumption about code in /repo, so it is checked: every `Clone` impl of the crate that the analysed flows
reach (derive_where / derive output or hand-written alike) must return a value that is field for field the value it was given."""
from terms import *  # noqa
from rules.common import *  # noqa

CLONE = ('core::clone::Clone', 'std::clone::Clone')


def _eta(val, src, fieldnames, layouts):
    """val is `src` rebuilt field by field (nested crate-local *structs* may be rebuilt too; an enum value such as `None`, or any
    other constructor, is not a copy of `src`)"""
    if val == src:
        return True
    if val is None or val[0] != 'adt':
        return False
    got = dict(val[3])
    if fieldnames is None:
        lay = layouts.get(val[1])
        if lay is None or lay.get('kind') != 'struct' or len(lay.get('variants', [])) != 1:
            return False
        fieldnames = [f['name'] for f in lay['variants'][0]['fields']]
    if set(got) != set(fieldnames):
        return False
    return all(_eta(v, ('fld', src, k), None, layouts) for k, v in got.items())


def verdicts(ctx, sn, crate):
    """[(type, good, detail, where)] for every `Clone` impl of `crate` among the bodies of suite `sn`"""
    S = ctx.suite(sn)
    out = []
    layouts = {}
    for k, v in S.types.items():
        if v.get('dpath'):
            layouts.setdefault(v['dpath'], v)
    for b in list(S.bodies.values()):
        if b.get('crate') != crate or b.get('impl_trait_dpath') not in CLONE or b.get('name') != 'clone':
            continue
        s = ctx.summary(sn, b['generic_path'], params=[Sym('self')], select=b['path'])
        w = where_of(s)
        short = b['generic_path'].split(' as ')[0].lstrip('<')
        self_ty = (b.get('impl_self_concrete') or '')
        # layout of the concrete self type (field names per variant)
        lay = None
        for k, v in S.types.items():
            if v.get('dpath') and short.split('<')[0] == v['dpath'] and (not self_ty or k == self_ty):
                lay = v
                break
        good = s.complete and bool(s.paths) and all(p.outcome == 'Ret' for p in s.paths)
        detail = ''
        if good and lay is not None and lay.get('kind') == 'enum':
            names = [v['name'] for v in lay['variants']]
            seen = set()
            for p in s.paths:
                d = p.state.assume.get(Sym('self'))
                v = p.value
                ok = v is not None and v[0] == 'adt' and isinstance(d, int) and 0 <= d < len(names) and v[2] == names[d] and not lay['variants'][d]['fields']
                ok = ok or v == Sym('self')
                good = good and ok
                seen.add(d)
                detail = detail or ('' if ok else 'variant %s cloned as %s' % (d, show(v)[:80]))
            good = good and (len(seen) == len(names) or any(p.value == Sym('self') for p in s.paths))
        elif good:
            fns = [f['name'] for f in lay['variants'][0]['fields']] if lay is not None and lay.get('variants') else None
            for p in s.paths:
                ok = _eta(p.value, Sym('self'), fns, layouts)
                good = good and ok
                detail = detail or ('' if ok else 'clone returns %s' % show(p.value)[:200])
        out.append((short, good, detail or str(s.notes[:2]), w))
    return out


_SELFTEST = {}


def selftest(ctx):
    """the rule must fire on the fixtures crate's two wrong `Clone` impls and stay silent on the correct twin (every run)"""
    if 'done' in _SELFTEST:
        return _SELFTEST['done']
    import facts
    v = {short.split('::')[-1]: good for short, good, _, _ in verdicts(ctx, 'fx:fx', 'fixtures')}
    problems = []
    for bad in ('FxCloneDropsOption', 'FxCloneResetsBytes'):
        if v.get(bad) is not False:
            problems.append('L-CLONE did not report fixtures::%s (%s)' % (bad, v.get(bad)))
    if v.get('FxCloneGood') is not True:
        problems.append('L-CLONE reported the field-wise fixtures::FxCloneGood (%s)' % v.get('FxCloneGood'))
    if problems:
        raise facts.MachineryError('fixture self-test failed: ' + '; '.join(problems))
    _SELFTEST['done'] = v
    return v


def check(ctx, rep, rule):
    rep.extra['fixture_selftest_clone'] = selftest(ctx)
    total = 0
    for sn in ctx.suite_names:
        n = 0
        for short, good, detail, w in verdicts(ctx, sn, 'opaque_ke'):
            n += int(good)
            rep.ob(rule, 'Clone for %s returns the value it was given, field for field' % short, good, detail, w, sn,
                   sample='%s::clone(x) = x' % short)
        total += n
    rep.floor(rule, "Clone impls of the crate's own types reached by the analysed flows and by the harness's clone root", total, 33 * len(ctx.suite_names))
