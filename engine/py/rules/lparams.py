"""L-PARAMS: the rules read the protocol functions' behaviour as a function of the *fields* of the parameter structs.  Callers usually
build those structs through the public constructors and `Default`, which are code in /repo too: every `new` of a parameter struct must
store each argument, unmodified, in the field of its type, and every `default()` must be "everything absent"."""
from terms import *  # noqa
from rules.common import *  # noqa

PARAM_TYPES = ('opaque_ke::ClientRegistrationFinishParameters', 'opaque_ke::ClientLoginFinishParameters', 'opaque_ke::ServerLoginStartParameters',
               'opaque_ke::Identifiers', 'opaque_ke::opaque::Identifiers')
DEFAULT = ('core::default::Default', 'std::default::Default')


def _is_none(v):
    if v is not None and v[0] == 'app' and v[1] == 'Default' and len(v[2]) == 1 and v[2][0][0] == 'sym':
        # `<Option<T> as Default>::default()` (library code, defined to be None)
        return v[2][0][1].startswith(('std::option::Option<', 'core::option::Option<'))
    return v is not None and v[0] == 'adt' and v[2] == 'None' and 'Option' in v[1]


def _all_absent(v):
    if _is_none(v):
        return True
    if v is not None and v[0] == 'adt' and not ('Option' in v[1]):
        return all(_all_absent(x) for _, x in v[3])
    return v is not None and v[0] == 'adt' and v[2] == 'PhantomData'


def check(ctx, rep, rule):
    n_new = n_def = 0
    for sn in ctx.suite_names:
        S = ctx.suite(sn)
        for b in list(S.bodies.values()):
            if b.get('crate') != 'opaque_ke':
                continue
            gp = b['generic_path']
            ty = None
            for t in PARAM_TYPES:
                if gp.startswith(t + '::<') or gp.startswith(t + '::') or gp.startswith('<' + t + '<') or gp.startswith('<' + t + ' '):
                    ty = t
            if ty is None:
                continue
            short = ty.split('::')[-1]
            if b.get('impl_trait_dpath') in DEFAULT and b.get('name') == 'default':
                s = ctx.summary(sn, gp, params=[], select=b['path'])
                good = s.complete and len(s.paths) == 1 and _all_absent(s.paths[0].value)
                n_def += int(good)
                rep.ob(rule, '%s::default() is "everything absent" (every optional field None)' % short, good,
                       'default() = %s' % (show(s.paths[0].value)[:200] if s.paths else s.notes[:2]), where_of(s), sn, sample='%s::default() = all None' % short)
            elif b.get('impl_trait_dpath') is None and b.get('name') == 'new':
                argc = b.get('argc', 0)
                ps = [Sym('arg%d' % i) for i in range(argc)]
                s = ctx.summary(sn, gp, params=ps, select=b['path'])
                good = s.complete and len(s.paths) == 1 and s.paths[0].value is not None and s.paths[0].value[0] == 'adt'
                if good:
                    vals = [v for _, v in s.paths[0].value[3] if not (v is not None and v[0] == 'adt' and v[2] == 'PhantomData')]
                    good = sorted(vals, key=repr) == sorted(ps, key=repr)
                n_new += int(good)
                rep.ob(rule, '%s::new stores every argument, unmodified, in its own field' % short, good,
                       'new(..) = %s' % (show(s.paths[0].value)[:240] if s.paths else s.notes[:2]), where_of(s), sn, sample='%s::new(a, b, ..) = {a, b, ..}' % short)
    ns = len(ctx.suite_names)
    rep.floor(rule, 'parameter-struct constructors reviewed', n_new, 2 * ns)
    rep.floor(rule, 'parameter-struct defaults reviewed', n_def, 4 * ns)
