"""C15 — the key-stretching function is applied once and bound into every secret (DESIGN section 5, C15)."""
import core
import rfc
from terms import *  # noqa
from rules.common import *  # noqa
from rules import anatomy as an

EXPLANATION = (
    "Counting/guard analysis of ClientRegistration::finish and ClientLogin::finish over monomorphic MIR, per suite (Identity KSF suites and "
    "one Argon2 suite). On every Ok path: exactly one Ksf::hash event; its receiver is the caller's instance on the Some branch of the "
    "parameter and Default::default() of the suite's KSF type on the None branch (two outcomes of one inspected Option); its argument is "
    "the OPRF output; its Ok value is the second half of the Extract input; its failure outcome reaches an Err return; masking key, auth key, "
    "export key and client key seed all descend from that Extract term. The Argon2 adapter body is analysed for error propagation."
)
ASSUMPTIONS = ["the KSF is a function of its parameters (needed for 'different parameters fail')", "model table (DESIGN 3.5)"]


def run(ctx):
    rep = core.Report('C15', ctx.tier, EXPLANATION, ASSUMPTIONS)
    suites = list(ctx.suite_names) + ['argon2']
    n_once = n_bound = 0
    for sn in suites:
        Nh = suite_params(sn)['Nh']
        for which in ('creg_finish', 'clog_finish'):
            s = api_summary(ctx, sn, which)
            w = where_of(s)
            rep.ob('R15.0', '%s summary complete' % which, s.complete and bool(s.ok_paths), 'notes=%s' % s.notes, w, sn)
            some_seen = none_seen = 0
            KSFP = ('fld', Sym('params'), 'ksf')
            for p in s.ok_paths:
                a = an.client_finish(p)
                calls = a['ksf_calls']
                once = len(calls) == 1
                n_once += int(once)
                rep.ob('R15.1', '%s: exactly one Ksf::hash on each Ok path' % which, once, '%d Ksf::hash events' % len(calls), w, sn,
                       sample='Ksf::hash(%s, %s)' % (show(calls[0][1]), show(calls[0][2])[:120]) if calls else None)
                if not calls:
                    continue
                _, recv, arg = calls[0]
                assumed = p.state.assume.get(KSFP)
                if assumed == 1:
                    some_seen += 1
                    good = recv == an.someval(KSFP)
                    rep.ob('R15.2', "%s: receiver is the caller's instance when one is passed" % which, good, 'receiver = %s' % show(recv), w, sn)
                elif assumed == 0:
                    none_seen += 1
                    good = recv is not None and ((recv[0] == 'app' and recv[1] == 'Default') or (recv[0] == 'adt' and not contains(recv, Sym('params'))))
                    rep.ob('R15.2', '%s: receiver is the default instance when none is passed' % which, good, 'receiver = %s' % show(recv), w, sn)
                else:
                    rep.ob('R15.2', '%s: the KSF parameter is inspected on the path' % which, False, 'params.ksf never inspected; receiver = %s' % show(recv), w, sn)
                rep.ob('R15.3', '%s: KSF argument is the OPRF output' % which, 'o' in a and arg == a['o'], 'argument = %s' % show(arg)[:300], w, sn)
                exp = rfc.randomized_pwd(a.get('o'), an.okval(App('Ksf::hash', recv, arg)), Nh) if 'o' in a else None
                rep.ob('R15.3', '%s: KSF result is the second half of the Extract input' % which, a.get('rp') == exp,
                       'rp = %s' % show(a.get('rp'))[:400], w, sn)
                # R15.5 every password-derived secret descends from rp
                rp = a.get('rp')
                labs = {'MaskingKey': 'masking_key' in a}
                for lab in ('AuthKey', 'ExportKey', 'PrivateKey'):
                    es = a.get('env_' + lab, [])
                    labs[lab] = bool(es) and all(prk == rp for _, prk, _, _ in es)
                ok5 = rp is not None and all(labs.values())
                n_bound += int(ok5)
                rep.ob('R15.5', '%s: masking/auth/export/seed keys are expanded from the stretched randomized password' % which, ok5,
                       'per label: %s' % labs, w, sn)
            rep.ob('R15.2', '%s: both the Some and the None branch of the KSF parameter reach Ok' % which, some_seen > 0 and none_seen > 0,
                   'Some paths=%d None paths=%d' % (some_seen, none_seen), w, sn)
            # R15.4 failure propagates
            errs = 0
            for p in s.err_paths:
                for i, e in enumerate(p.events):
                    if e[0] == 'outcome' and e[2] == 'Err' and e[1][0] == 'app' and e[1][1] == 'Ksf::hash':
                        errs += 1
            rep.ob('R15.4', '%s: the failure outcome of Ksf::hash reaches an Err return' % which, errs >= 2, 'Err paths through KSF failure: %d' % errs, w, sn)
            for p in s.ok_paths:
                bad = [e for e in p.events if e[0] == 'outcome' and e[2] == 'Err' and e[1][0] == 'app' and e[1][1] == 'Ksf::hash']
                rep.ob('R15.4', '%s: no Ok path after a failed Ksf::hash' % which, not bad, 'Ok path after KSF failure', w, sn)
    # R15.6 Argon2 adapter
    S = ctx.suite('argon2')
    cands = [b for b in S.bodies.values() if b.get('impl_trait_dpath') == 'opaque_ke::ksf::Ksf' and 'argon2' in b['path'].lower() and b.get('name') == 'hash']
    rep.ob('R15.6', 'Argon2 Ksf adapter instance found', len(cands) == 1, 'candidates=%d' % len(cands), '', 'argon2')
    if len(cands) == 1:
        s = ctx.summary('argon2', cands[0]['generic_path'], params=[Sym('self'), Sym('input')])
        w = where_of(s)
        n_ok = n_err = 0
        for p in s.paths:
            outs = [e for e in p.events if e[0] == 'call' and 'hash_password_into' in e[1]]
            for e in outs:
                # the caller's own Argon2 context (variant, version, secret, costs) does the hashing, on the input, with the fixed all-zero salt
                a = e[2]
                good = len(a) >= 3 and a[0] == Sym('self') and a[1] == Sym('input') and a[2][0] == 'bytes' and set(a[2][1]) <= {0}
                rep.ob('R15.6', "Argon2 adapter: hash_password_into is called on the caller's instance itself, on the input, with the fixed salt", good,
                       'receiver %s, password %s, salt %s' % (show(a[0])[:100], show(a[1])[:60], show(a[2])[:60] if len(a) > 2 else '-'), w, 'argon2')
            if p.ok:
                n_ok += 1
                rep.ob('R15.6', 'Argon2 adapter: Ok only after hash_password_into', len(outs) == 1, 'calls on Ok path: %d' % len(outs), w, 'argon2')
                # the value returned is the whole buffer the hash was written into (no partial fill, no post-processing)
                val = p.payload
                whole = val is not None and val[0] == 'app' and val[1].endswith('hash_password_into#out3') and val[2][:2] == (Sym('self'), Sym('input'))
                rep.ob('R15.6', 'Argon2 adapter: the returned value is the whole output buffer filled by the caller\'s instance', whole,
                       'returns %s' % show(val)[:300], w, 'argon2')
                fails = [e for e in p.events if e[0] == 'outcome' and e[2] == 'Err']
                rep.ob('R15.6', 'Argon2 adapter: no Ok after failure', not fails, 'Ok path after failed outcome', w, 'argon2')
            else:
                n_err += 1
                good = p.payload == Adt('opaque_ke::errors::InternalError', 'KsfError', [])
                rep.ob('R15.6', 'Argon2 adapter: failure returns KsfError', good, show(p.payload), w, 'argon2')
        rep.ob('R15.6', 'Argon2 adapter: both outcomes present', n_ok >= 1 and n_err >= 1, 'ok=%d err=%d' % (n_ok, n_err), w, 'argon2')
    # R15.7 the built-in no-op KSF returns its input (what "Identity" means in the suites' configuration; RFC 9807 section 7, Identity KSF)
    n_id = 0
    for sn in suites:
        S = ctx.suite(sn)
        for b in S.bodies.values():
            if b.get('impl_trait_dpath') == 'opaque_ke::ksf::Ksf' and b.get('name') == 'hash' and 'ksf::Identity' in b['path']:
                sm = ctx.summary(sn, b['generic_path'], params=[Sym('self'), Sym('input')])
                good = sm.complete and len(sm.paths) == 1 and sm.paths[0].outcome == 'Ok' and sm.paths[0].payload == Sym('input')
                n_id += int(good)
                rep.ob('R15.7', 'the Identity KSF returns Ok(input), unmodified, on its only path', good,
                       'paths: %s' % [(q.outcome, show(q.value)[:80]) for q in sm.paths[:3]], where_of(sm), sn, sample='Identity::hash(input) = Ok(input)')
    ns = len(suites)
    rep.floor('R15.7', 'Identity KSF instances reviewed (every suite except the Argon2 one)', n_id, ns - 1)
    rep.floor('R15.1', 'finish Ok paths with exactly one KSF call', n_once, 2 * 8 * ns)
    rep.floor('R15.5', 'Ok paths with all secrets bound', n_bound, 2 * 8 * ns)
    from rules import profile
    profile.check(ctx, rep, 'R15.P', ['creg_finish', 'clog_finish'])
    from rules import lclone
    lclone.check(ctx, rep, 'R15.C')
    from rules import lparams
    lparams.check(ctx, rep, 'R15.N')
    return rep
