"""C09 — conformance to the OPAQUE / OPRF specifications: the formula clause (DESIGN section 5, C09)."""
import core
import rfc
from terms import *  # noqa
from rules.common import *  # noqa
from rules import anatomy as an
from rules.c08 import check_eval
from rules import encoder

EXPLANATION = (
    "Formula clause, not bytes: for every output, on every Ok path and in every suite analysed, the term the code computes is compared with the formula of RFC 9807 / RFC 9497 "
    "transcribed independently in rfc.py (labels by content, order, prefix widths, HKDF/HMAC wiring, lengths) and instantiated with the code's own component terms: OPRF key "
    "derivation; randomized password; masking key; auth/export/seed keys; DeriveDiffieHellmanKeyPair (hash-to-scalar inputs and domain separation tag, or clamping for "
    "Curve25519); envelope auth tag; credential-response pad and masking; preamble; IKM slot order and roles on both sides; Expand-Label; handshake secret, session key, Km2, "
    "Km3, both MACs; the wire image of each of the six messages produced by an honest step; the pending server state; and per-suite lengths of all 11 encodings as evaluated "
    "by the compiler against the RFC length formulas with that suite's Noe, Nok, Npk, Nsk, Nh, Nn = 32. Primitives are trusted to implement their names; byte values are "
    "numerical and are what the vectors sample."
)
ASSUMPTIONS = ["voprf implements Blind/BlindEvaluate/Finalize/DeriveKeyPair, hkdf/hmac/sha2 implement HKDF/HMAC/SHA-2, the group crates implement their groups (not decided)",
               "rfc.py is a faithful transcription of RFC 9807 sections 4-6 and RFC 9497 section 3.2.1"]


def lens_expected(P):
    Nh, Noe, Nok, Npk, Nsk, Nn, Nm = P['Nh'], P['Noe'], P['Nok'], P['Npk'], P['Nsk'], P['Nn'], P['Nm']
    env = Nn + Nm
    ke1 = Nn + Npk
    ke2 = Nn + Npk + Nm
    return {
        'RegistrationRequest': Noe, 'RegistrationResponse': Noe + Npk, 'RegistrationUpload': Npk + Nh + env,
        'CredentialRequest': Noe + ke1, 'CredentialResponse': Noe + Nn + (Npk + env) + ke2, 'CredentialFinalization': Nm,
        'ServerRegistration': Npk + Nh + env, 'ServerSetup': Nh + Nsk + Nsk, 'ClientRegistration': Nok + Noe,
        'ClientLogin': Nok + (Noe + ke1) + (Nsk + Nn), 'ServerLogin': 3 * Nh,
    }


def norm_keys(t):
    """decode(encode(x)) = x for key leaves (so that derived key pairs compare structurally)"""
    def f(x):
        if x[0] == 'fld' and x[2] == '0' and x[1][0] == 'as' and x[1][2] == 'Ok' and x[1][1][0] == 'app' and x[1][1][1] == 'KeGroup::deserialize_sk':
            a = x[1][1][2][0]
            if a[0] == 'app' and a[1] == 'KeGroup::serialize_sk':
                return a[2][0]
        return x
    return rewrite(t, f)


def check_derive_dh(ctx, rep, rule, sn, row):
    """DeriveDiffieHellmanKeyPair of the suite's key-exchange group against the RFC formula (used by C09 R09.7 and C19 R19.4)"""
    S = ctx.suite(sn)
    P = suite_params(sn)
    # ---- DeriveDiffieHellmanKeyPair body
    bs = [b for b in S.bodies.values() if b.get('name') == 'derive_auth_keypair' and (b.get('impl_trait_dpath') == 'opaque_ke::key_exchange::group::KeGroup' or b.get('trait_default'))]
    if len(bs) == 1:
        ds = ctx.summary(sn, bs[0]['generic_path'], params=[Sym('seed')])
        wd = where_of(ds)
        if P['ke'] == 'c25519':
            for p in ds.ok_paths:
                row(rule, 'DeriveDiffieHellmanKeyPair (Curve25519) = clamp(seed) (RFC 7748)', p.payload,
                    App('curve25519_dalek::scalar::clamp_integer', Sym('seed')), wd, sn)
        else:
            calls = set()
            for p in ds.paths:
                for _, e in p.calls('KeGroup::hash_to_scalar'):
                    calls.add(e[2])
            ok = bool(calls)
            concrete_ctrs = set()
            for inp, dst in sorted(calls, key=repr):
                inp_cat = Cat([norm(x) for x in inp[1]]) if inp[0] in ('array', 'list') else None
                dst_cat = Cat([norm(x) for x in dst[1]]) if dst[0] in ('array', 'list') else None
                ctr = [x for x in subterms(inp, lambda t: t[0] == 'app' and t[1] == 'RangeItem')]
                want_in = Cat([Sym('seed'), Bytes((33).to_bytes(2, 'big')), Bytes(rfc.DERIVE_DH_INFO), App('I2OSP', ctr[0], Int(1))]) if ctr else None
                if not ctr and inp[0] in ('array', 'list') and inp[1] and norm(inp[1][-1])[0] == 'bytes' and len(norm(inp[1][-1])[1]) == 1:
                    # the counter loop was unrolled completely (a loop that is not a `for` over a range): one call per concrete counter value
                    k = norm(inp[1][-1])[1][0]
                    concrete_ctrs.add(k)
                    want_in = Cat([Sym('seed'), Bytes((33).to_bytes(2, 'big')), Bytes(rfc.DERIVE_DH_INFO), Bytes(bytes([k]))])
                    if k not in (0, 1, 255):
                        # 256 identical rows add nothing to the report: the formula is compared for each, reported for the boundary counters
                        if inp_cat != want_in or dst_cat != Bytes(b'DeriveKeyPair' + b'OPRFV1-' + b'\x00' + b'-' + P['suite_id']):
                            ok = row(rule, 'DeriveDiffieHellmanKeyPair: hash-to-scalar input/DST for counter %d' % k, inp_cat, want_in, wd, sn) and ok
                        continue
                want_dst = Bytes(b'DeriveKeyPair' + b'OPRFV1-' + b'\x00' + b'-' + P['suite_id'])
                ok = ok and row(rule, 'DeriveDiffieHellmanKeyPair: hash-to-scalar input = seed || I2OSP(33,2) || "OPAQUE-DeriveDiffieHellmanKeyPair" || I2OSP(counter,1)', inp_cat, want_in, wd, sn)
                ok = ok and row(rule, 'DeriveDiffieHellmanKeyPair: DST = "DeriveKeyPair" || "OPRFV1-" || 0x00 || "-" || suite id', dst_cat, want_dst, wd, sn)
            rep.ob(rule, 'DeriveDiffieHellmanKeyPair: hash-to-scalar calls found', bool(calls), '', wd, sn)
            # the counter runs over exactly 0..=255, starting at 0 (RFC 9807 section 6.4.2 via RFC 9497 DeriveKeyPair)
            ranges = set()
            for inp, dst in calls:
                for x in subterms(inp, lambda t: t[0] == 'app' and t[1] == 'RangeItem'):
                    ranges.add((x[2][0], x[2][1]))
            if ranges:
                rep.ob(rule, 'DeriveDiffieHellmanKeyPair: the counter loop runs over exactly 0..=255', ranges == {(Int(0), Int(255))},
                       'counter ranges seen: %s' % sorted((show(a), show(b)) for a, b in ranges), wd, sn)
            if concrete_ctrs:
                rep.ob(rule, 'DeriveDiffieHellmanKeyPair: the unrolled counter loop tries exactly the counters 0..255', concrete_ctrs == set(range(256)),
                       'counters seen: %d (min %s, max %s)' % (len(concrete_ctrs), min(concrete_ctrs), max(concrete_ctrs)), wd, sn)
    else:
        rep.ob(rule, 'DeriveDiffieHellmanKeyPair body found', False, 'instances %d' % len(bs), '', sn)


def run(ctx):
    rep = core.Report('C09', ctx.tier, EXPLANATION, ASSUMPTIONS)
    rows = 0
    labels_seen = set()

    def row(rule, what, got, want, w, sn):
        nonlocal rows
        good = got is not None and want is not None and got == want
        rows += int(good)
        if good:
            for lab in rfc.LABELS:
                if subterms(want, lambda t: t[0] == 'bytes' and lab in t[1]):
                    labels_seen.add(lab)
        rep.ob(rule, what, good, 'got      %s\nexpected %s' % (show(got)[:900], show(want)[:900]), w, sn, sample='%s = %s' % (what, show(got)[:300]))
        return good

    for sn in ctx.suite_names:
        P = suite_params(sn)
        Nh, Nsk, Npk, Nn, Nm, Nok = P['Nh'], P['Nsk'], P['Npk'], P['Nn'], P['Nm'], P['Nok']
        S = ctx.suite(sn)
        # ---- lengths (W-LEN by the compiler's const evaluator)
        exp = lens_expected(P)
        for name, tp in DECODERS.items():
            b = S.find(tp + '::serialize')
            got = ty_bytes_len(b['locals'][0]['ty'])
            rep.ob('R09.L', 'length of %s equals the RFC formula for this suite' % name, got == exp[name], 'type-level length %s, RFC formula %d' % (got, exp[name]), core.body_loc(b), sn)
        # ---- integer encoder
        encoder.check_encoder(ctx, rep, 'R09.I2OSP', sn)
        # ---- OPRF key / evaluation (both server starts)
        for which in ('sreg_start', 'slog_start'):
            s = api_summary(ctx, sn, which)
            for p in s.ok_paths:
                ev = msg_eval(fields(p.payload).get('message'))
                if check_eval(rep, 'R09.1', which, ev, sn, where_of(s), Nok, role_term(ctx, sn, s, 2 if which == 'sreg_start' else 4, Sym('request'), 'blinded')):
                    rows += 1
                    labels_seen.update([b'OprfKey', b'OPAQUE-DeriveKeyPair'])
        # ---- registration finish
        s = api_summary(ctx, sn, 'creg_finish')
        w = where_of(s)
        for p in s.ok_paths:
            a = an.client_finish(p)
            res = fields(p.payload)
            up = fields(res.get('message'))
            env = fields(msg_envelope(res.get('message')))
            if 'o' not in a or not a['ksf_calls']:
                rep.ob('R09.2', 'registration: OPRF finalize and KSF located', False, '', w, sn)
                continue
            _, recv, arg = a['ksf_calls'][0]
            rp = rfc.randomized_pwd(a['o'], an.okval(App('Ksf::hash', recv, arg)), Nh)
            row('R09.2', 'registration: randomized_pwd = Extract("", y || Stretch(y))', a.get('rp'), rp, w, sn)
            nonces = [v for v in env.values() if is_rng_draw(v)]
            nonce = nonces[0] if nonces else None
            ks = rfc.envelope_keys(rp, nonce, Nh, Nsk)
            mk = [v for k, v in up.items() if v == ks['masking_key']]
            row('R09.3', 'registration: masking_key = Expand(randomized_pwd, "MaskingKey", Nh) is stored in the record', mk[0] if mk else None, ks['masking_key'], w, sn)
            row('R09.4', 'registration: export_key = Expand(randomized_pwd, nonce || "ExportKey", Nh)', res.get('export_key'), ks['export_key'], w, sn)
            cpk = [v for v in up.values() if v is not None and v[0] == 'adt' and 'PublicKey' in v[1]]
            want_pk = App('KeGroup::public_key', an.okval(App('KeGroup::derive_auth_keypair', ks['seed'])))
            got_pk = norm_keys(fields(cpk[0]).get('0')) if cpk else None
            row('R09.5', 'registration: client public key = PK(DeriveDiffieHellmanKeyPair(Expand(randomized_pwd, nonce || "PrivateKey", Nsk)))', got_pk, want_pk, w, sn)
            ids = ('fld', Sym('params'), 'identifiers')
            rpk = role_term(ctx, sn, s, 4, Sym('response'), 'pubkeys')
            spk = an.ser_pk(('fld', rpk, '0'))
            id_u = an.ident_choice(p, ('fld', ids, 'client'), an.ser_pk(fields(cpk[0]).get('0')) if cpk else None)
            id_s = an.ident_choice(p, ('fld', ids, 'server'), spk)
            tag = rfc.auth_tag(ks['auth_key'], nonce, rfc.cleartext_credentials(spk, id_s, id_u), Nh) if None not in (id_u, id_s, nonce) else None
            macs = [v for v in env.values() if app_args(v, 'Mac')]
            row('R09.6', 'registration: auth_tag = MAC(Expand(randomized_pwd, nonce || "AuthKey"), nonce || server_public_key || LP2(id_s) || LP2(id_u))',
                macs[0] if macs else None, tag, w, sn)
            # wire image of the record: client_public_key || masking_key || envelope (nonce || auth_tag)
            wire = an.ser(ctx, sn, DECODERS['RegistrationUpload'], res.get('message'))
            want = Cat([an.ser_pk(fields(cpk[0]).get('0')), ks['masking_key'], nonce, tag]) if (cpk and tag is not None) else None
            row('R09.W', 'wire image of the registration record = client_public_key || masking_key || nonce || auth_tag', wire, want, w, sn)
        check_derive_dh(ctx, rep, 'R09.7', sn, row)
        # ---- server login start: pad, masking, key schedule, MAC, state, wire image
        s = api_summary(ctx, sn, 'slog_start')
        w = where_of(s)
        for p in s.ok_paths:
            res = fields(p.payload)
            msg = fields(res.get('message'))
            pre, mac = an.server_login_mac_preimage(p)
            exp_pre = an.server_login_preamble(ctx, sn, p, P)
            row('R09.8', 'server: preamble', pre, exp_pre, w, sn)
            if pre is None or mac is None:
                continue
            # masked response
            mr = None
            for v in msg.values():
                if v is not None and v[0] == 'adt' and find_apps(v, 'xor'):
                    mr = v
            xs = find_apps(mr, 'xor') if mr is not None else []
            if xs:
                x = xs[0]
                pads = [e for e in p.events if e[0] == 'expand' and cat_parts(e[2])[-1:] == [Bytes(b'CredentialResponsePad')]]
                mk = pads[0][1] if pads else None
                nonce_m = cat_parts(pads[0][2])[0] if pads else None
                want_pad = rfc.credential_response_pad(mk, nonce_m, Npk, Nn, Nm)
                row('R09.9', 'server: pad = Expand(masking_key, masking_nonce || "CredentialResponsePad", Npk + Nn + Nm)', x[2][0], want_pad, w, sn)
                plain = x[2][1]
                parts = cat_parts(plain)
                okp = len(parts) >= 2 and app_args(parts[0], 'KeGroup::serialize_pk') is not None and tlen(plain) == Npk + Nn + Nm
                rep.ob('R09.9', 'server: masked plaintext = server_public_key || envelope, Npk + Nn + Nm bytes', okp, show(plain)[:300], w, sn)
                row('R09.9', 'server: masking nonce sent is the one in the pad info', nonce_m, [v for v in msg.values() if v == nonce_m][0] if [v for v in msg.values() if v == nonce_m] else None, w, sn)
            # IKM roles
            dhs = [e[2] for _, e in p.calls('KeGroup::diffie_hellman')]
            ex = find_apps(mac[0], 'Extract')
            ikm = ex[0][2][1] if ex else None
            eph = [d for d in dhs if find_apps(d[1], 'KeGroup::derive_auth_keypair')]
            stat = [d for d in dhs if d not in eph]
            rq = role_term(ctx, sn, s, 4, Sym('request'), 'pubkeys')
            req_pk = ('fld', rq, '0') if rq is not None else None
            roles_ok = len(dhs) == 3 and len(stat) == 1 and stat[0][0] == req_pk and sum(1 for d in eph if d[0] == req_pk) == 1
            if roles_ok:
                e1 = [d for d in eph if d[0] == req_pk][0]
                e3 = [d for d in eph if d[0] != req_pk][0]
                want_ikm = Cat([App('KeGroup::diffie_hellman', *e1), App('KeGroup::diffie_hellman', *stat[0]), App('KeGroup::diffie_hellman', *e3)])
                row('R09.10', 'server: IKM = DH(e_srv, E_cli) || DH(s_srv, E_cli) || DH(e_srv, S_cli)', ikm, want_ikm, w, sn)
            else:
                rep.ob('R09.10', 'server: three DH slots with RFC roles', False, str([show(d[0])[:60] for d in dhs]), w, sn)
            ks = rfc.key_schedule(ikm, pre, Nh)
            row('R09.11', 'server: server_mac = MAC(Km2, Hash(preamble)), Km2 = Expand-Label(handshake_secret, "ServerMAC", "")', App('Mac', *mac), ks['server_mac'], w, sn)
            st = res.get('state')
            vals = set(subterms(st, lambda t: t[0] == 'app' and t[1] in ('Expand', 'Hash')))
            tops = set(k for k in vals if not any(k != o and contains(o, k) for o in vals))
            row('R09.12', 'server: pending state = {Km3, Hash(preamble || server_mac), session_key}', ('list', tuple(sorted(tops, key=repr))),
                ('list', tuple(sorted({ks['km3'], ks['hpre2'], ks['session_key']}, key=repr))), w, sn)
            wire = an.ser(ctx, sn, DECODERS['CredentialResponse'], res.get('message'))
            if xs:
                ke2 = [v for v in msg.values() if v is not None and v[0] == 'adt' and 'Ke2Message' in v[1]]
                k2 = fields(ke2[0]) if ke2 else {}
                snonce = [v for v in k2.values() if is_rng_draw(v)]
                epk = [v for v in k2.values() if v is not None and v[0] == 'adt']
                ev = [v for v in msg.values() if app_args(v, 'Eval')]
                if snonce and epk and ev:
                    want = Cat([App('ser_elem', ev[0]), nonce_m, xs[0], snonce[0], an.ser_pk(fields(epk[0]).get('0')), ks['server_mac']])
                    row('R09.W', 'wire image of the credential response = evaluated || masking_nonce || masked_response || server_nonce || server_keyshare || server_mac', wire, want, w, sn)
        # ---- client login finish: key schedule, MACs
        s = api_summary(ctx, sn, 'clog_finish')
        w = where_of(s)
        for p in s.ok_paths:
            a = an.client_finish(p)
            res = fields(p.payload)
            if len(a['mac_ok']) < 2 or 'rp' not in a:
                rep.ob('R09.13', 'client: MAC comparisons located', False, '', w, sn)
                continue
            pre = an.hash_preimage(a['mac_ok'][-1][2])
            row('R09.8', 'client: preamble', pre, an.client_login_preamble(ctx, sn, p, P), w, sn)
            ex = find_apps(a['mac_ok'][-1][1], 'Extract')
            ikm = ex[0][2][1] if ex else None
            dec = a['decode_pk'][0][1]
            pkstar = an.okval(App('KeGroup::deserialize_pk', dec))
            csk = [args[1] for _, args in a['dh'] if contains(args[1], a['rp'])]
            # name-free: roles by provenance
            dhs = [args for _, args in a['dh']]
            roles = len(dhs) == 3 and len(csk) == 1
            if roles:
                sk_e = [d[1] for d in dhs if is_whole_field_of(d[1], Sym('self'))]
                pk_e = [d[0] for d in dhs if is_whole_field_of(d[0], Sym('response'))]
                roles = len(set(sk_e)) == 1 and len(set(pk_e)) == 1 and len(sk_e) == 2 and len(pk_e) == 2
            if roles:
                want_ikm = Cat([App('KeGroup::diffie_hellman', pk_e[0], sk_e[0]), App('KeGroup::diffie_hellman', pkstar, sk_e[0]), App('KeGroup::diffie_hellman', pk_e[0], csk[0])])
                row('R09.10', 'client: IKM = DH(e_cli, E_srv) || DH(e_cli, S_srv) || DH(s_cli, E_srv)', ikm, want_ikm, w, sn)
            else:
                rep.ob('R09.10', 'client: three DH slots with RFC roles', False, str([(show(d[0])[:50], show(d[1])[:50]) for d in dhs]), w, sn)
            ks = rfc.key_schedule(ikm, pre, Nh)
            row('R09.13', 'client: verifies server_mac under Km2 over Hash(preamble)', App('Mac', a['mac_ok'][-1][1], a['mac_ok'][-1][2]), ks['server_mac'], w, sn)
            row('R09.13', 'client: session_key = Expand-Label(Extract("", IKM), "SessionKey", Hash(preamble))', res.get('session_key'), ks['session_key'], w, sn)
            cm = find_apps(res.get('message'), 'Mac')
            # the transcript for the client MAC uses the *received* server MAC
            tagterm = a['mac_ok'][-1][3]
            want_cm = rfc.mac(ks['km3'], rfc.hash_(Cat([pre, tagterm]), Nh), Nh)
            row('R09.13', 'client: client_mac = MAC(Km3, Hash(preamble || server_mac))', cm[0] if cm else None, want_cm, w, sn)
            wire = an.ser(ctx, sn, DECODERS['CredentialFinalization'], res.get('message'))
            row('R09.W', 'wire image of the credential finalization = client_mac', wire, want_cm, w, sn)
            # envelope keys at open
            m1 = a['mac_ok'][0]
            nonce = cat_parts(m1[2])[0] if cat_parts(m1[2]) else None
            eks = rfc.envelope_keys(a['rp'], nonce, Nh, Nsk)
            row('R09.4', 'login: export_key = Expand(randomized_pwd, envelope nonce || "ExportKey", Nh)', res.get('export_key'), eks['export_key'], w, sn)
            row('R09.6', 'login: envelope verified under Expand(randomized_pwd, envelope nonce || "AuthKey", Nh)', m1[1], eks['auth_key'], w, sn)
            want_csk = an.okval(App('KeGroup::derive_auth_keypair', eks['seed']))
            row('R09.5', 'login: client private key = DeriveDiffieHellmanKeyPair(Expand(randomized_pwd, envelope nonce || "PrivateKey", Nsk))', norm_keys(csk[0]) if csk else None, want_csk, w, sn)
            pad = find_apps(dec, 'xor')
            if pad:
                want_pad = rfc.credential_response_pad(rfc.expand(a['rp'], Bytes(b'MaskingKey'), Nh), role_term(ctx, sn, s, 3, Sym('response'), 'nonces'), Npk, Nn, Nm)
                row('R09.9', 'login: unmasking pad = Expand(Expand(randomized_pwd, "MaskingKey", Nh), masking_nonce || "CredentialResponsePad", Npk + Nn + Nm)', pad[0][2][0], want_pad, w, sn)
        # ---- client starts: wire images
        for which, tp in (('creg_start', 'RegistrationRequest'), ('clog_start', 'CredentialRequest')):
            s = api_summary(ctx, sn, which)
            for p in s.ok_paths:
                msg = fields(p.payload).get('message')
                wire = an.ser(ctx, sn, DECODERS[tp], msg)
                bl = find_apps(msg, 'Blind')
                if which == 'creg_start':
                    want = App('ser_elem', bl[0]) if bl else None
                    row('R09.W', 'wire image of the registration request = blinded element', wire, want, where_of(s), sn)
                else:
                    ke1 = [v for v in fields(msg).values() if v is not None and v[0] == 'adt']
                    k1 = fields(ke1[0]) if ke1 else {}
                    nonce = [v for v in k1.values() if is_rng_draw(v)]
                    epk = [v for v in k1.values() if v is not None and v[0] == 'adt']
                    want = Cat([App('ser_elem', bl[0]), nonce[0], an.ser_pk(fields(epk[0]).get('0'))]) if (bl and nonce and epk) else None
                    row('R09.W', 'wire image of the credential request = blinded element || client_nonce || client_keyshare', wire, want, where_of(s), sn)
        s = api_summary(ctx, sn, 'sreg_start')
        for p in s.ok_paths:
            msg = fields(p.payload).get('message')
            wire = an.ser(ctx, sn, DECODERS['RegistrationResponse'], msg)
            ev = [v for v in fields(msg).values() if app_args(v, 'Eval')]
            pk = [v for v in fields(msg).values() if v is not None and v[0] != 'app']
            want = Cat([App('ser_elem', ev[0]), an.ser_pk(('fld', pk[0], '0'))]) if (ev and pk) else None
            row('R09.W', 'wire image of the registration response = evaluated element || server_public_key', wire, want, where_of(s), sn)
    ns = len(ctx.suite_names)
    rep.floor('R09', 'formula rows matched', rows, ns * 150)
    # R09.H the group's HashToScalar used by DeriveDiffieHellmanKeyPair is the reviewed dependency function over the suite's hash
    n_h2s = sum(an.kegroup_h2s_reviewed(ctx, rep, 'R09.H', sn) for sn in ctx.suite_names)
    rep.floor('R09.H', 'KeGroup::hash_to_scalar instances reviewed (every suite whose key-exchange group is not Curve25519)', n_h2s,
              sum(1 for sn in ctx.suite_names if suite_params(sn)['ke'] != 'c25519'))
    rep.ob('R09.LBL', 'all 13 RFC labels occur, by content, in matched formulas', len(labels_seen) == 13,
           'missing: %s' % [l for l in rfc.LABELS if l not in labels_seen], '', None)
    from rules import profile
    profile.check(ctx, rep, 'R09.P', ['creg_start', 'creg_finish', 'sreg_start', 'clog_start', 'clog_finish', 'slog_start'])
    from rules import lclone
    lclone.check(ctx, rep, 'R09.C')
    an.vgroup_forwarding(ctx, rep, 'R09.D')
    return rep


def norm(x):
    if x is not None and x[0] == 'array' and all(y[0] == 'int' for y in x[1]):
        return Bytes(bytes(y[1] & 0xff for y in x[1]))
    return x
