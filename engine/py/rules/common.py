"""Helpers shared by the rule modules: API anchors, canonical parameter names, term queries."""
from terms import *  # noqa
import terms
import core

# public API anchors (DESIGN 3.1).  Parameters are named by position, never by the source's names.
API = {
    'creg_start': ('opaque_ke::ClientRegistration::<CS>::start', ['rng', 'password']),
    'creg_finish': ('opaque_ke::ClientRegistration::<CS>::finish', ['self', 'rng', 'password', 'response', 'params']),
    'sreg_start': ('opaque_ke::ServerRegistration::<CS>::start', ['setup', 'request', 'cred_id']),
    'sreg_finish': ('opaque_ke::ServerRegistration::<CS>::finish', ['upload']),
    'clog_start': ('opaque_ke::ClientLogin::<CS>::start', ['rng', 'password']),
    'clog_finish': ('opaque_ke::ClientLogin::<CS>::finish', ['self', 'password', 'response', 'params']),
    'slog_start': ('opaque_ke::ServerLogin::<CS>::start', ['rng', 'setup', 'file', 'request', 'cred_id', 'params']),
    'slog_finish': ('opaque_ke::ServerLogin::<CS>::finish', ['self', 'finalization']),
    'setup_new': ('opaque_ke::ServerSetup::<CS>::new', ['rng']),
    'setup_new_with_key': ('opaque_ke::ServerSetup::<CS, S>::new_with_key', ['rng', 'keypair']),
}

DECODERS = {
    'RegistrationRequest': 'opaque_ke::RegistrationRequest::<CS>',
    'RegistrationResponse': 'opaque_ke::RegistrationResponse::<CS>',
    'RegistrationUpload': 'opaque_ke::RegistrationUpload::<CS>',
    'CredentialRequest': 'opaque_ke::CredentialRequest::<CS>',
    'CredentialResponse': 'opaque_ke::CredentialResponse::<CS>',
    'CredentialFinalization': 'opaque_ke::CredentialFinalization::<CS>',
    'ServerRegistration': 'opaque_ke::ServerRegistration::<CS>',
    'ServerSetup': 'opaque_ke::ServerSetup::<CS, S>',
    'ClientRegistration': 'opaque_ke::ClientRegistration::<CS>',
    'ClientLogin': 'opaque_ke::ClientLogin::<CS>',
    'ServerLogin': 'opaque_ke::ServerLogin::<CS>',
}

INVALID_LOGIN = Adt('opaque_ke::errors::ProtocolError', 'InvalidLoginError', [])

# per-suite lengths as the RFCs define them (spec side; never read from the code)
OPRF_PARAMS = {  # name: (Nh, Noe, Nok, contextString suite id)
    'r255': (64, 32, 32, b'ristretto255-SHA512'),
    'p256': (32, 33, 32, b'P256-SHA256'),
    'p384': (48, 49, 48, b'P384-SHA384'),
    'p521': (64, 67, 66, b'P521-SHA512'),
}
KE_PARAMS = {  # name: (Npk, Nsk)
    'r255': (32, 32), 'p256': (33, 32), 'p384': (49, 48), 'p521': (67, 66), 'c25519': (32, 32),
}
NN = 32


def suite_params(suite_name):
    base = suite_name.split('-')[0]
    if base == 'argon2':
        o, k = 'r255', 'r255'
    else:
        o, k = base.split('_')
    Nh, Noe, Nok, sid = OPRF_PARAMS[o]
    Npk, Nsk = KE_PARAMS[k]
    return {'Nh': Nh, 'Noe': Noe, 'Nok': Nok, 'Npk': Npk, 'Nsk': Nsk, 'Nn': NN, 'Nm': Nh, 'suite_id': sid,
            'oprf': o, 'ke': k}


def api_summary(ctx, suite, which, **kw):
    gp, names = API[which]
    s = ctx.summary(suite, gp, params=[Sym(n) for n in names], **kw)
    # L-EXPLORED (checked for every property by ./check): a rule that loops over the paths of an API function is vacuous if there are none
    if not hasattr(ctx, 'api_log'):
        ctx.api_log = {}
    ctx.api_log.setdefault((suite, which), s)
    return s


def fields(v):
    """dict of an adt value's fields (following single-field wrappers is the caller's business)"""
    if v is not None and v[0] == 'adt':
        return dict(v[3])
    return {}


def fld(v, *names):
    for n in names:
        v = ('fld', v, n)
    return v


def mac_checks(path, upto=None):
    """successful full-strength MAC comparisons on a path, in order:
    [(event_index, key, msg, tag, how)] from Mac::verify*/ct_eq/== of a Mac(k,m) term with a tag"""
    out = []
    for i, e in enumerate(path.events):
        if upto is not None and i >= upto:
            break
        if e[0] == 'MacVerify' and e[1] == 'Ok' and e[5] == 'full':
            out.append((i, e[2], e[3], e[4], 'verify', e[6]))
        elif e[0] == 'assume' and e[2] == 1 and e[1][0] == 'app' and e[1][1] in ('ct_eq', 'eq'):
            a, b = e[1][2]
            for x, y in ((a, b), (b, a)):
                if x[0] == 'app' and x[1] == 'Mac' and len(x[2]) == 2:
                    out.append((i, x[2][0], x[2][1], y, e[1][1], ''))
                    break
    return out


def failed_mac_checks(path):
    out = []
    for i, e in enumerate(path.events):
        if e[0] == 'MacVerify' and e[1] == 'Err':
            out.append((i, e[2], e[3], e[4], 'verify', e[6]))
        elif e[0] == 'assume' and e[2] == 0 and e[1][0] == 'app' and e[1][1] in ('ct_eq', 'eq'):
            a, b = e[1][2]
            for x, y in ((a, b), (b, a)):
                if x[0] == 'app' and x[1] == 'Mac' and len(x[2]) == 2:
                    out.append((i, x[2][0], x[2][1], y, e[1][1], ''))
                    break
    return out


def is_whole_field_of(t, root):
    """t is `root.f1.f2...` (a whole field path of the symbolic parameter), not a slice / function of it"""
    while t is not None and t[0] == 'fld':
        t = t[1]
    return t == root


def app_args(t, name):
    if t is not None and t[0] == 'app' and t[1] == name:
        return t[2]
    return None


def find_apps(t, name):
    return subterms(t, lambda x: x[0] == 'app' and x[1] == name)


def cat_parts(t):
    if t is None:
        return []
    if t[0] == 'cat':
        return list(t[1])
    if t == ('bytes', b''):
        return []
    return [t]


def where_of(summary):
    return core.body_loc(summary.body)


def first_span(path, kinds=('MacVerify',)):
    for e in path.events:
        if e[0] in kinds:
            return core.rel(e[-1])
    return ''


def setup_public_key(ctx, sn, setup=Sym('setup')):
    """the term returned by the public accessor chain `setup.keypair().public()` (name-free link to 'the setup's public key')"""
    s1 = ctx.summary(sn, 'opaque_ke::ServerSetup::<CS, S>::keypair', params=[setup])
    if len(s1.paths) != 1:
        return None
    kp = s1.paths[0].value
    s2 = ctx.summary(sn, 'opaque_ke::keypair::KeyPair::<KG, S>::public', params=[kp])
    if len(s2.paths) != 1:
        return None
    return s2.paths[0].value


def rng_terms(t):
    return subterms(t, lambda x: x[0] == 'app' and x[1] == 'Rng')


def is_rng_draw(t, rng=Sym('rng')):
    return t is not None and t[0] == 'app' and t[1] == 'Rng' and t[2][0] == rng


def role_term(ctx, sn, summary, param_idx, param_sym, what, k=0):
    """term `param.<path>` for the field of the parameter's type playing the given role (name-free)"""
    S = ctx.suite(sn)
    ty = summary.body['locals'][param_idx]['ty']
    r = S.role(ty, what)
    if len(r) <= k:
        return None
    t = param_sym
    for n in r[k]:
        t = ('fld', t, n)
    return t


def field_where(v, pred):
    """first field value of an adt value satisfying pred (roles by content, not by field name)"""
    if v is not None and v[0] == 'adt':
        for _, x in v[3]:
            if pred(x):
                return x
    return None


def msg_eval(msg):
    """the OPRF evaluation element of a server message value"""
    return field_where(msg, lambda x: x is not None and x[0] == 'app' and x[1] == 'Eval')


def msg_envelope(upload):
    """the envelope value inside a registration upload: the nested struct that carries the MAC"""
    return field_where(upload, lambda x: x is not None and x[0] == 'adt' and any(f is not None and f[0] == 'app' and f[1] == 'Mac' for _, f in x[3]))


def msg_masked(msg):
    """the masked-response value of a credential response: the nested struct made of slices of one xor term"""
    return field_where(msg, lambda x: x is not None and x[0] == 'adt' and bool(find_apps(x, 'xor')) and not find_apps(x, 'Mac'))


def msg_pubkey(msg):
    """the (single) public-key field of a message value"""
    return field_where(msg, lambda x: x is not None and ((x[0] == 'adt' and x[1].endswith('keypair::PublicKey')) or (x[0] == 'fld' and not x[2].isdigit() and False)))
