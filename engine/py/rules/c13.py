"""C13 — persisted state survives save / restart unchanged (DESIGN section 5, C13)."""
import re
import core
import facts
import interp
from terms import *  # noqa
from rules.common import *  # noqa
from rules import anatomy as an
from rules import lpure

EXPLANATION = (
    "R13.1 (monomorphic MIR, per suite): symbolic decode(encode(x)) for the five persistable types — X::serialize is summarised on a symbolic value x, the resulting byte "
    "term is fed to X::deserialize (with leaf decode(encode(v)) = v), and every leaf field of the decoded value (enumerated from the concrete type layout) must be the "
    "same leaf of x; the only exceptions are checked for what they are: the envelope mode tag (a constant) and KeyPair.pk (recomputed as public_key of the decoded secret). "
    "A field dropped, reordered or truncated consistently in both directions therefore shows up. R13.2 (generic MIR, serde feature on): for every type with a derived serde "
    "impl the field names passed to serialize_field equal the struct's fields in order and the derived visit_seq reads one element per field (so no skip/default field); "
    "the hand-written key impls encode with serialize_sk/_pk of the payload (decoding is covered by C11 R11.1). R13.3: L-PURE — the continuation depends only on "
    "(state, arguments, rng). R13.4: each finish step takes its state by value."
)
ASSUMPTIONS = ["value-level round trip of leaf encoders (scalar/point <-> bytes) is the dependencies'", "serde data formats (bincode/JSON) preserve the serde data model"]

STATE_TYPES = ['ServerSetup', 'ServerRegistration', 'ClientRegistration', 'ClientLogin', 'ServerLogin']
MSG_TYPES = ['RegistrationRequest', 'RegistrationResponse', 'RegistrationUpload', 'CredentialRequest', 'CredentialResponse', 'CredentialFinalization']


def lookup(v, names):
    for n in names:
        if v is None:
            return None
        if v[0] == 'adt':
            f = dict(v[3])
            v = f.get(n)
        else:
            v = ('fld', v, n)
    return v


def run(ctx):
    rep = core.Report('C13', ctx.tier, EXPLANATION, ASSUMPTIONS)
    lpure.check(ctx, rep, 'R13.3')
    n_leaves = 0
    for sn0 in ctx.suite_names:
      # the server setup is persisted by servers whose static key is held externally, too (`ServerSetup<CS, S>` with a foreign `S`)
      for sn, type_names in ((sn0, STATE_TYPES + MSG_TYPES), (sn0 + '-remote', ['ServerSetup'])):
        S = ctx.suite(sn)
        for name0 in type_names:
              name = name0 + ('[external key]' if sn.endswith('-remote') else '')
              tp = DECODERS[name0]
              X = Sym('x')
              sb = S.find(tp + '::serialize')
              ty = sb['locals'][1]['ty'].lstrip('&')
              enc = an.ser(ctx, sn, tp, X)
              w = core.body_loc(sb)
              rep.ob('R13.1', '%s::serialize summarised' % name, enc is not None, '', w, sn)
              if enc is None:
                  continue
              d = ctx.summary(sn, tp + '::deserialize', params=[enc], honest=True)
              oks = d.ok_paths
              IDERR = Adt('opaque_ke::errors::ProtocolError', 'IdentityGroupElementError', [])
              other_errs = [q for q in d.err_paths if q.payload != IDERR]
              if sn.endswith('-remote'):
                  # an external key may fail at any call (C18); that is not a round-trip failure of the encoding
                  other_errs = [q for q in other_errs if not any(e[0] == 'outcome' and e[2] == 'Err' and e[1][0] == 'app' and e[1][1].startswith('SecretKey::')
                                                                 for e in q.events)]
              rep.ob('R13.1', '%s: deserialize(serialize(x)) has exactly one Ok path and fails only on an identity element' % name, len(oks) == 1 and not other_errs and d.complete,
                     'ok=%d all=%d notes=%s; first error: %s' % (len(oks), len(d.paths), d.notes, show(d.err_paths[0].payload)[:200] if d.err_paths else '-'),
                     where_of(d), sn)
              if len(oks) != 1:
                  continue
              val = oks[0].payload
              chains = S.leaf_chains(ty)
              rep.ob('R13.1', '%s: leaf fields enumerated from the type layout' % name, len(chains) >= 1, ty, w, sn)
              for names, chain in chains:
                  lty = chain[-1]
                  got = lookup(val, names)
                  want = lookup(X, names)
                  fname = '.'.join(names)
                  if 'InnerEnvelopeMode' in lty:
                      good = got is not None and got[0] == 'adt' and got[2] == 'Internal'
                      rep.ob('R13.1', '%s.%s: the (unserialised) envelope mode is the constant Internal' % (name, fname), good, show(got), where_of(d), sn)
                      continue
                  # the public key inside a KeyPair is recomputed from the decoded secret key (roles by type, not by field name)
                  if len(chain) >= 3 and '::KeyPair<' in chain[-3] and '::PublicKey<' in chain[-2]:
                      kp_prefix = names[:-2]
                      kpt = S.types.get(chain[-3])
                      skf = [f['name'] for f in kpt['variants'][0]['fields'] if '::PublicKey<' not in f['ty']] if kpt else []
                      sk = lookup(val, list(kp_prefix) + [skf[0], '0']) if skf else None
                      if sk is not None:
                          good = got == App('KeGroup::public_key', sk)
                          if sn.endswith('-remote'):
                              # an external key computes its own public key
                              good = good or got == ('fld', ('fld', ('as', App('SecretKey::public_key', lookup(val, list(kp_prefix) + [skf[0]])), 'Ok'), '0'), '0')
                          n_leaves += int(good)
                          rep.ob('R13.1', '%s.%s: public key is recomputed from the decoded secret key' % (name, fname), good, show(got)[:200], where_of(d), sn)
                          continue
                  good = got == want
                  n_leaves += int(good)
                  rep.ob('R13.1', '%s.%s survives encode/decode' % (name, fname), good, 'decoded %s ; original %s' % (show(got)[:200], show(want)[:200]),
                         where_of(d), sn, sample='%s.%s: %s' % (name, fname, show(got)[:80]))
      sn = sn0
      if True:
        # R13.4
        for which in ('creg_finish', 'clog_finish', 'slog_finish'):
            b = api_summary(ctx, sn, which).body
            rep.ob('R13.4', '%s takes its state by value' % which, not b['locals'][1]['ty'].startswith('&'), b['locals'][1]['ty'][:80], core.body_loc(b), sn)
    # ---- R13.2 serde (generic facts, all features)
    g = ctx.g
    adts = {a['path']: a for a in g['adts']}
    n_types = 0
    ser_bodies = [b for b in g['bodies'] if b.get('impl_trait_dpath') == 'serde_core::ser::Serialize' and b['path'].endswith('::serialize')]
    rep.ob('R13.2', 'serde Serialize impls found (feature serde compiled in)', len(ser_bodies) >= 14, 'found %d' % len(ser_bodies), '', None)
    for b in ser_bodies:
        m = re.search(r'Serialize for ([A-Za-z_:0-9]+)', b['path'])
        m2 = re.match(r'^<([A-Za-z_:0-9]+)<.*> as .*Serialize>::serialize$', b['path'])
        tname = m.group(1) if m else (m2.group(1) if m2 else None)
        if tname is None:
            rep.ob('R13.2', 'serde Serialize impl target recognised', False, b['path'], core.body_loc(b), None)
            continue
        adt = adts.get(tname)
        calls = [bb['term'] for bb in b['blocks'] if not bb['cleanup'] and bb['term']['k'] == 'call']
        names = []
        kinds = set()
        for t in calls:
            dp = t['callee'].get('dpath', '')
            if dp.endswith('SerializeStruct::serialize_field'):
                c = t['args'][1].get('c', {})
                names.append(bytes.fromhex(c.get('bytes', '')).decode('ascii', 'replace'))
            if dp.startswith('serde_core::ser::Serializer::'):
                kinds.add(dp.split('::')[-1])
        w = core.body_loc(b)
        if tname in ('keypair::PrivateKey', 'keypair::PublicKey'):
            # hand-written: must encode KeGroup::serialize_* of the payload
            GS = interp.GSuite(g)
            body = GS.by_generic['opaque_ke::' + b['path']][0]
            I, outs = interp.summarize(GS, body, [Sym('self'), Sym('serializer')], adts=ctx.adts)
            want = 'KeGroup::serialize_sk' if 'Private' in tname else 'KeGroup::serialize_pk'
            # directly, or through the key's own serialize method (whose body is the group encoder of the payload: C19 R19.2)
            via = 'SecretKey::serialize' if 'Private' in tname else 'PublicKey::serialize'
            good = bool(outs) and all(any(e[0] == 'call' and ((e[1] == want and e[2][0] == ('fld', Sym('self'), '0')) or
                                                               (e[1].endswith(via) and e[2] and e[2][0] in (Sym('self'), ('fld', Sym('self'), '0'))))
                                          for e in st.events) for st, _ in outs)
            n_types += int(good)
            rep.ob('R13.2', 'hand-written Serialize for %s encodes %s(self.0)' % (tname, want), good,
                   'calls seen: %s' % sorted(set(e[1] for st, _ in outs for e in st.events if e[0] == 'call'))[:8], w, None)
            continue
        if adt is None:
            rep.ob('R13.2', 'serde Serialize impl for a known type', False, tname, w, None)
            continue
        fields = [f['name'] for f in adt['variants'][0]['fields']] if len(adt['variants']) == 1 else None
        if 'serialize_struct' in kinds and fields is not None:
            good = names == fields
            n_types += int(good)
            rep.ob('R13.2', 'derived Serialize for %s writes every field, in declaration order' % tname, good, 'serialize_field names %s ; struct fields %s' % (names, fields), w, None,
                   sample='%s: %s' % (tname, names))
        elif 'serialize_newtype_struct' in kinds and fields is not None:
            n_types += 1
            rep.ob('R13.2', 'derived Serialize for newtype %s writes its single field' % tname, len(fields) == 1, str(fields), w, None)
        elif kinds & {'serialize_unit_variant'}:
            n_types += 1
            rep.ob('R13.2', 'derived Serialize for enum %s writes the variant' % tname, True, '', w, None)
        else:
            rep.ob('R13.2', 'derived Serialize for %s has a recognised shape' % tname, False, str(sorted(kinds)), w, None)
    # Deserialize: visit_seq reads one element per field
    vs = [b for b in g['bodies'] if b['path'].endswith('::visit_seq') and '__Visitor' in b['path']]
    for b in vs:
        m = re.search(r'Deserialize<\'de> for ([A-Za-z_:0-9]+)', b['path'])
        if not m:
            continue
        adt = adts.get(m.group(1))
        if adt is None or len(adt['variants']) != 1:
            continue
        nfields = len(adt['variants'][0]['fields'])
        reads = sum(1 for bb in b['blocks'] if not bb['cleanup'] and bb['term']['k'] == 'call' and bb['term']['callee'].get('dpath', '').endswith('SeqAccess::next_element'))
        rep.ob('R13.2', 'derived Deserialize for %s reads one element per field' % m.group(1), reads == nfields, 'next_element calls %d, fields %d' % (reads, nfields), core.body_loc(b), None)
    # derived impls are plain: every field is written and read unconditionally.  The serde helper attributes that make a field conditional
    # (skip_serializing_if, default = "path", default, with, ...) are consumed by the derive and leave only their generated code: a call to
    # `skip_field`, to `Default::default`, or to a function of this crate inside the derived body.  The callee sets below are the complete
    # sets observed in today's derived bodies (enumerated, not guessed).
    SER_OK = ('serde_core::ser::Serializer::serialize_unit_variant', 'serde_core::ser::Serializer::serialize_struct', 'core::ops::try_trait::Try::branch',
              'serde_core::ser::SerializeStruct::serialize_field', 'core::ops::try_trait::FromResidual::from_residual', 'serde_core::ser::SerializeStruct::end',
              'serde_core::ser::Serializer::serialize_newtype_struct', 'serde_core::ser::Serializer::serialize_newtype_variant',
              'serde_core::ser::Serializer::serialize_unit_struct', 'serde_core::ser::Serializer::serialize_tuple_struct',
              'serde_core::ser::SerializeTupleStruct::serialize_field', 'serde_core::ser::SerializeTupleStruct::end')
    DE_OK = ('serde_core::de::SeqAccess::next_element', 'core::ops::try_trait::Try::branch', 'core::ops::try_trait::FromResidual::from_residual',
             'serde_core::de::Error::invalid_length', 'serde_core::de::MapAccess::next_key', 'serde_core::de::MapAccess::next_value',
             'core::option::{impl#0}::is_some', 'core::option::{impl#0}::is_none', 'serde_core::de::Error::duplicate_field', 'serde::private::de::missing_field',
             'serde_core::de::MapAccess::next_value_seed', 'serde_core::de::SeqAccess::next_element_seed')
    n_plain = 0
    for b in g['bodies']:
        pth = b['path']
        hand = 'keypair::PrivateKey' in pth or 'keypair::PublicKey' in pth
        if b.get('impl_trait_dpath') == 'serde_core::ser::Serialize' and pth.endswith('::serialize') and not hand:
            okset, what = SER_OK, 'derived Serialize'
        elif '__Visitor' in pth and (pth.endswith('::visit_seq') or pth.endswith('::visit_map')):
            okset, what = DE_OK, 'derived Deserialize (%s)' % pth.rsplit('::', 1)[-1]
        else:
            continue
        other = sorted(set(bb['term']['callee'].get('dpath', '?') for bb in b['blocks']
                           if not bb['cleanup'] and bb['term']['k'] == 'call' and bb['term']['callee'].get('dpath', '?') not in okset))
        m = re.search(r'(?:Serialize|Deserialize<\'de>) for ([A-Za-z_:0-9]+)', pth)
        tn = m.group(1) if m else pth[:80]
        n_plain += int(not other)
        rep.ob('R13.2', '%s for %s reads/writes every field unconditionally (no skip / default / with code in the derived body)' % (what, tn), not other,
               'the derived body calls %s: a field is written or read conditionally, or through a custom function, so formats that are not self-describing '
               '(bincode) and the reloaded value can disagree with what was saved' % other, core.body_loc(b), None)
    rep.floor('R13.2', 'plain derived serde bodies', n_plain, 50)
    rep.floor('R13.2', 'derived visit_seq bodies checked', len(vs), 14)
    rep.floor('R13.2', 'Serialize impls matched', n_types, 16)
    rep.floor('R13.1', 'leaves surviving the round trip', n_leaves, 30 * len(ctx.suite_names))
    from rules import profile
    profile.check(ctx, rep, 'R13.P', [DECODERS[n] + '::deserialize' for n in STATE_TYPES] + [DECODERS[n] + '::serialize' for n in STATE_TYPES])
    from rules import lclone
    lclone.check(ctx, rep, 'R13.C')
    return rep
