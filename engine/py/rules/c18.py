"""C18 — externally held server keys are a transparent abstraction (DESIGN section 5, C18)."""
import re
import core
from terms import *  # noqa
from rules.common import *  # noqa
from rules import anatomy as an
from rules import lpure

EXPLANATION = (
    "Call-graph + guard analysis of the server code instantiated with an external key type S = RemoteKey (a harness type implementing SecretKey with its own error type; "
    "never executed), monomorphic MIR per suite. (1) Which SecretKey methods are invoked on S: registration start — none; login start — public_key exactly once and "
    "diffie_hellman exactly once on every Ok path, never serialize/deserialize; setup (de)serialisation — only serialize / deserialize / public_key. (2) Every Ok path of "
    "ServerLogin::start passed the Ok outcome of both calls; on their failure outcomes the function returns Err(LibraryError(e)) with e the callee's own error value, "
    "unchanged; no unwrap/expect/panic on them; no CredentialResponse is constructed before the DH outcome is known. (3) Parametricity: no TypeId/Any reachable. "
    "(4) Transparency: the response and state terms computed with S = RemoteKey equal those computed with the direct key after replacing S::public_key(k) by "
    "PublicKey(KG::public_key(k)) and S::diffie_hellman(k, pk) by KG::diffie_hellman(pk, k)."
)
ASSUMPTIONS = ["the external key implements the same public_key / diffie_hellman functions as the direct key (what 'the same key' means)"]

SK_CALLS = ('SecretKey::public_key', 'SecretKey::diffie_hellman', 'SecretKey::serialize', 'SecretKey::deserialize')


def sk_calls(p):
    return [(i, e) for i, e in enumerate(p.events) if e[0] == 'call' and e[1] in SK_CALLS]


def errval(call):
    return ('fld', ('as', call, 'Err'), '0')


def to_direct(t):
    """rewrite external-key symbols into the direct key's terms"""
    def f(x):
        if x[0] == 'fld' and x[2] == '0' and x[1][0] == 'as' and x[1][2] == 'Ok' and x[1][1][0] == 'app':
            c = x[1][1]
            if c[1] == 'SecretKey::public_key':
                k = c[2][0]
                return Adt('opaque_ke::keypair::PublicKey', 'PublicKey', [('0', App('KeGroup::public_key', ('fld', k, '0')))])
            if c[1] == 'SecretKey::diffie_hellman':
                k, pk = c[2]
                return App('KeGroup::diffie_hellman', ('fld', pk, '0'), ('fld', k, '0'))
        if x[0] == 'fld' and x[2] == '0' and x[1][0] == 'adt' and x[1][1] == 'opaque_ke::keypair::PublicKey':
            return dict(x[1][3])['0']
        return x
    return rewrite(t, f)


def run(ctx):
    rep = core.Report('C18', ctx.tier, EXPLANATION, ASSUMPTIONS)
    n_paths = n_equal = 0
    for base in ctx.suite_names:
        sn = base + '-remote'
        S = ctx.suite(sn)
        # R18.7 stored state: the setup is written as seed || the external key's own encoding || fake key, whatever the length of that
        # encoding (the harness's external key is 80 bytes, no group's scalar length), and that image reloads
        X = Sym('x')
        ss = ctx.summary(sn, DECODERS['ServerSetup'] + '::serialize', params=[X])
        P = suite_params(sn)
        good = ss.complete and len(ss.paths) == 1 and not ss.diverged
        enc = ss.paths[0].value if good else None
        if good:
            parts = cat_parts(enc)
            good = (len(parts) == 3 and parts[1][0] == 'app' and parts[1][1] == 'SecretKey::serialize' and parts[2][0] == 'app' and parts[2][1] == 'KeGroup::serialize_sk'
                    and tlen(enc) == P['Nh'] + 80 + P['Nsk'])
        rep.ob('R18.7', 'ServerSetup::serialize (external key) = oprf_seed || SecretKey::serialize(key) || fake key, without panicking', good,
               'serialize(x) = %s ; diverging paths %d' % (show(enc)[:200] if enc is not None else ss.notes[:2], len(ss.diverged)), where_of(ss), sn,
               sample='setup image: %s' % (show(enc)[:100] if enc is not None else '-'))
        if enc is not None:
            d = ctx.summary(sn, DECODERS['ServerSetup'] + '::deserialize', params=[enc], honest=True)
            rep.ob('R18.7', 'ServerSetup::deserialize (external key) accepts the image serialize wrote', len(d.ok_paths) == 1 and not d.diverged,
                   'ok paths %d, diverging %d; first error %s' % (len(d.ok_paths), len(d.diverged), show(d.err_paths[0].payload)[:160] if d.err_paths else '-'), where_of(d), sn)
        # R18.1 registration start: no SecretKey call
        s = api_summary(ctx, sn, 'sreg_start')
        w = where_of(s)
        rep.ob('R18.0', 'ServerRegistration::start (external key) summarised', s.complete and bool(s.ok_paths), str(s.notes), w, sn)
        for p in s.paths:
            rep.ob('R18.1', 'ServerRegistration::start makes no call on the external key', not sk_calls(p), str([e[1] for _, e in sk_calls(p)]), w, sn)
        # login start
        s = api_summary(ctx, sn, 'slog_start')
        w = where_of(s)
        rep.ob('R18.0', 'ServerLogin::start (external key) summarised', s.complete and bool(s.ok_paths), str(s.notes), w, sn)
        for p in s.ok_paths:
            calls = sk_calls(p)
            names = [e[1] for _, e in calls]
            good = names.count('SecretKey::public_key') == 1 and names.count('SecretKey::diffie_hellman') == 1 and len(names) == 2
            n_paths += int(good)
            rep.ob('R18.1', 'ServerLogin::start Ok path: public_key once, diffie_hellman once, nothing else on the external key', good, str(names), w, sn)
            rep.ob('R18.1', "the calls are made on the setup's key", all(is_whole_field_of(e[2][0], Sym('setup')) for _, e in calls), '', w, sn)
            oks = [e for e in p.events if e[0] == 'outcome' and e[1][0] == 'app' and e[1][1] in SK_CALLS]
            rep.ob('R18.2', 'Ok path passed the Ok outcome of both external-key calls', len(oks) == 2 and all(e[2] == 'Ok' for e in oks), str([(e[1][1], e[2]) for e in oks]), w, sn)
            unw = [e for e in p.events if e[0] in ('unwrap', 'panic')]
            bad_unw = [e for e in unw if e[0] == 'unwrap' and mentions(e[1], Sym('setup')) and find_apps(e[1], 'SecretKey::public_key') + find_apps(e[1], 'SecretKey::diffie_hellman')]
            rep.ob('R18.2', 'no unwrap/expect on an external-key result', not bad_unw, str(bad_unw)[:200], w, sn)
            ci = p.index_of_construct('CredentialResponse')
            dh_i = [i for i, e in enumerate(p.events) if e[0] == 'outcome' and e[1][0] == 'app' and e[1][1] == 'SecretKey::diffie_hellman']
            rep.ob('R18.2', 'no response is constructed before the Diffie-Hellman outcome is known', ci is None or (dh_i and dh_i[0] < ci), 'response@%s dh@%s' % (ci, dh_i), w, sn)
            # R18.4 transparency
            d = api_summary(ctx, base, 'slog_start')
            twin = [q for q in d.ok_paths if {k: v for k, v in q.state.assume.items() if k[0] in ('fld', 'sym', 'as')} ==
                    {k: v for k, v in p.state.assume.items() if k[0] in ('fld', 'sym', 'as')}]
            if len(twin) == 1:
                a, b = to_direct(p.value), to_direct(twin[0].value)
                eq = a == b
                n_equal += int(eq)
                rep.ob('R18.4', 'external-key run and direct-key run compute the same response and state terms', eq,
                       'external %s\n direct  %s' % (show(a)[:600], show(b)[:600]), w, sn)
            else:
                rep.ob('R18.4', 'direct-key twin path found', False, 'twins=%d' % len(twin), w, sn)
        n_fail = {'SecretKey::public_key': 0, 'SecretKey::diffie_hellman': 0}
        for p in s.paths:
            fails = [e for e in p.events if e[0] == 'outcome' and e[2] == 'Err' and e[1][0] == 'app' and e[1][1] in n_fail]
            for e in fails:
                n_fail[e[1][1]] += 1
                exp = Adt('opaque_ke::errors::ProtocolError', 'LibraryError', [('0', errval(e[1]))])
                rep.ob('R18.2', 'failure of %s is returned to the caller unchanged' % e[1][1], (not p.ok) and p.payload == exp,
                       'returns %s' % show(p.value)[:300], w, sn)
                built = p.index_of_construct('ServerLoginStartResult')
                rep.ob('R18.2', 'no result is constructed on the failure path', built is None, '', w, sn)
            if not p.ok and not fails:
                pan = [e for e in p.events if e[0] == 'panic']
                rep.ob('R18.2', 'no panic on an error path', not pan, str(pan)[:200], w, sn)
        for k, v in n_fail.items():
            rep.ob('R18.2', 'failure outcome of %s is reachable in the summary' % k, v > 0, '', w, sn)
        # diverging paths: a panic event anywhere in the exploration
        # setup (de)serialisation
        for gp, allowed in (('opaque_ke::ServerSetup::<CS, S>::serialize', {'SecretKey::serialize'}),
                            ('opaque_ke::ServerSetup::<CS, S>::deserialize', {'SecretKey::deserialize', 'SecretKey::public_key'}),
                            ('opaque_ke::ServerSetup::<CS, S>::new_with_key', set())):
            sm = ctx.summary(sn, gp)
            for p in sm.paths:
                names = set(e[1] for _, e in sk_calls(p))
                rep.ob('R18.1', '%s uses only %s on the external key' % (gp.split('::')[-1], sorted(allowed) or 'nothing'), names <= allowed, str(sorted(names)), where_of(sm), sn)
        # R18.5 a reloaded / imported key pair gets its public key from the external key itself
        for gp in ('opaque_ke::keypair::KeyPair::<KG, S>::from_private_key_slice', 'opaque_ke::keypair::KeyPair::<KG, S>::from_private_key'):
            if gp not in S.by_generic:
                continue
            sm = ctx.summary(sn, gp, select='RemoteKey')
            for p in sm.ok_paths:
                f = fields(p.payload)
                pks = [v for v in f.values() if v is not None and v[0] == 'fld' and v[2] == '0' and v[1][0] == 'as' and v[1][2] == 'Ok' and v[1][1][0] == 'app'
                       and v[1][1][1] == 'SecretKey::public_key']
                sks = [v for v in f.values() if v not in pks]
                good = len(pks) == 1 and len(sks) == 1 and pks[0][1][1][2][0] == sks[0]
                rep.ob('R18.5', '%s: the public key of the pair is the external key\'s own public_key() of the stored key' % gp.split('::')[-1], good,
                       'pair = %s' % show(p.payload)[:300], where_of(sm), sn)
        # CG: which RemoteKey items are reachable at all
        items = set()
        for n in list(S.bodies.values()) + list(S.leaves.values()):
            label = n.get('path') or n.get('inst') or ''
            m = re.match(r'^<(?:suites::)?RemoteKey<.*> as ([A-Za-z_:]+)(?:<.*>)?>::(\w+)', label)
            if m:
                items.add(m.group(1).split('::')[-1] + '::' + m.group(2))
        allowed = {'SecretKey::public_key', 'SecretKey::diffie_hellman', 'SecretKey::serialize', 'SecretKey::deserialize', 'Clone::clone'}
        rep.ob('R18.1', 'only the interface methods (and Clone) of the external key type are reachable', items <= allowed and len(items) >= 4, str(sorted(items)), '', sn)
        # R18.3 parametricity
        for n in list(S.bodies.values()) + list(S.leaves.values()):
            if n.get('dpath', '').startswith('core::any::'):
                rep.ob('R18.3', 'no TypeId/Any reachable', False, lpure.chain(S, n['id']), '', sn)
    # R18.6 the direct key's operations (what 'the same key held directly' computes) are the reviewed group operations
    for base in ctx.suite_names:
        an.group_dh_reviewed(ctx, rep, 'R18.6', base)
    ns = len(ctx.suite_names)
    rep.floor('R18.1', 'Ok paths with exactly the two interface calls', n_paths, 8 * ns)
    rep.floor('R18.4', 'transparent twins', n_equal, 8 * ns)
    from rules import profile
    profile.check(ctx, rep, 'R18.P', ['slog_start', 'sreg_start'], suites=[x + '-remote' for x in ctx.suite_names])
    from rules import lclone
    lclone.check(ctx, rep, 'R18.C')
    return rep
