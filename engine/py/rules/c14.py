"""C14 — the OPRF is oblivious and keyed per credential (DESIGN section 5, C14)."""
import core
from terms import *  # noqa
from rules.common import *  # noqa
from rules import anatomy as an
from rules.c08 import check_eval

EXPLANATION = (
    "Provenance analysis over monomorphic production MIR (cfg(not(test)) branch of the blinding helper), per suite: the server's evaluation "
    "element in both ServerRegistration::start and ServerLogin::start is Eval(key(DeriveKeyPair(Expand(seed, cred_id||\"OprfKey\"))), request element) "
    "and mentions nothing else (no RNG, record, static key); the OPRF key term contains both the seed and the credential identifier; in both "
    "client start steps the blind is a draw from the caller's RNG made inside voprf's blind call on (password, rng), the stored client state and "
    "the sent element are the two components of that one call, and nothing else in the request depends on the password; both finish steps "
    "finalize with that stored state, the password and the response element. Not decided: that the blind cancels algebraically (assumed), PRF security."
)
ASSUMPTIONS = ["OPRF unblinding identity Finalize(pw, r, Eval(k, Blind(pw, r))) = F(k, pw) (algebra inside voprf; assumed)",
               "PRF assumption for 'unrelated results'", "model table (DESIGN 3.5)"]


def run(ctx):
    rep = core.Report('C14', ctx.tier, EXPLANATION, ASSUMPTIONS)
    n_eval = n_blind = 0
    for sn in ctx.suite_names:
        P = suite_params(sn)
        for which in ('sreg_start', 'slog_start'):
            s = api_summary(ctx, sn, which)
            w = where_of(s)
            rep.ob('R14.0', '%s summary complete' % which, s.complete and bool(s.ok_paths), str(s.notes), w, sn)
            for p in s.ok_paths:
                ev = msg_eval(fields(p.payload).get('message'))
                n_eval += int(check_eval(rep, 'R14.1', API[which][0].split('::<')[0].split('::')[-1] + '::start', ev, sn, w, P['Nok'],
                                         role_term(ctx, sn, s, 2 if which == 'sreg_start' else 4, Sym('request'), 'blinded')))
                keys = find_apps(ev, 'DeriveKey')
                good = bool(keys) and contains(keys[0], Sym('cred_id')) and any(
                    is_whole_field_of(x, Sym('setup')) for x in subterms(keys[0], lambda t: t[0] == 'fld'))
                rep.ob('R14.2', '%s: OPRF key term contains the seed and the credential identifier' % which, good, show(keys[0])[:300] if keys else '-', w, sn)
        for which in ('creg_start', 'clog_start'):
            s = api_summary(ctx, sn, which)
            w = where_of(s)
            for p in s.ok_paths:
                res = fields(p.payload)
                blinds = [e for e in p.events if e[0] == 'rng' and e[1] == 'voprf-blind']
                calls = p.calls('voprf::OprfClient::blind')
                one = len(blinds) == 1 and len(calls) == 1 and blinds[0][2] == Sym('rng')
                rep.ob('R14.3', "%s: the blind is one draw from the caller's RNG inside voprf's blind(password, rng)" % which, one,
                       'blind draws: %s ; blind calls: %d ; deterministic blinds: %d' % ([show(b[2]) for b in blinds], len(calls),
                                                                                     len(p.calls('voprf::OprfClient::deterministic_blind_unchecked'))), w, sn)
                if not one:
                    continue
                inp, b = calls[0][1][2]
                msg = res.get('message')
                state = res.get('state')
                st_leaves = subterms(state, lambda t: t[0] == 'app' and t[1] == 'OprfClient')
                msg_el = subterms(msg, lambda t: t[0] == 'app' and t[1] == 'Blind')
                same = bool(st_leaves) and bool(msg_el) and all(x == App('OprfClient', b) for x in st_leaves) and all(x == App('Blind', inp, b) for x in msg_el) and inp == Sym('password')
                n_blind += int(same)
                rep.ob('R14.3', '%s: stored state and sent element come from the same blind call on the password' % which, same,
                       'state %s ; message %s' % (show(state)[:200], show(msg)[:200]), w, sn, sample='Blind(%s, %s)' % (show(inp), show(b)))
                # nothing else in the request depends on the password
                stripped = rewrite(msg, lambda t: Sym('BLINDED') if (t[0] == 'app' and t[1] == 'Blind') else t)
                rep.ob('R14.3', '%s: nothing in the request other than the blinded element depends on the password' % which,
                       not mentions(stripped, Sym('password')), show(stripped)[:300], w, sn)
                # state stored in the message copy equals the element kept in the state
        for which, ridx in (('creg_finish', 4), ('clog_finish', 3)):
            s = api_summary(ctx, sn, which)
            w = where_of(s)
            ev_term = role_term(ctx, sn, s, ridx, Sym('response'), 'eval')
            for p in s.ok_paths:
                a = an.client_finish(p)
                good = 'o' in a and a['oprf_input'] == Sym('password') and is_whole_field_of(a['oprf_state'], Sym('self')) and a['oprf_state'][0] == 'fld' \
                    and ev_term is not None and a['oprf_eval'] == ev_term and len(a['finalize_calls']) == 1
                rep.ob('R14.4', '%s: finalize(stored blind state, password, response element), once' % which, good, show(a.get('o')), w, sn)
    ns = len(ctx.suite_names)
    rep.floor('R14.1', 'evaluation terms', n_eval, ns * (1 + 8))
    rep.floor('R14.3', 'blind call sites', n_blind, 2 * ns)
    from rules import profile
    profile.check(ctx, rep, 'R14.P', ['sreg_start', 'slog_start', 'creg_start', 'clog_start', 'creg_finish', 'clog_finish'])
    from rules import lclone
    lclone.check(ctx, rep, 'R14.C')
    return rep
