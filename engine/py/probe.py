import sys, json, collections
sys.path.insert(0, '/verif/engine/py')
import facts, interp, models
from terms import *
d = facts.ensure()
suite_name = sys.argv[1]
target = sys.argv[2]
params = sys.argv[3].split(',') if len(sys.argv) > 3 and sys.argv[3] else []
only_ok = len(sys.argv) > 4 and sys.argv[4] == 'ok'
g = facts.load(d, 'g-all')
adts = {a['dpath']: [v['name'] for v in a['variants']] for a in g['adts']}
S = interp.Suite(facts.load(d, 'm-' + suite_name))
cands = [b for gp, bs in S.by_generic.items() if target in gp for b in bs]
for b in cands: print('cand', b['id'], b['generic_path'])
b = cands[0]
import time; t0=time.time()
I, outs = interp.summarize(S, b, [Sym(p) for p in params], adts=adts)
print('paths', len(outs), 'time %.2f' % (time.time()-t0), 'notes', I.notes)
print(collections.Counter((interp.res_variant(r)[0] if interp.res_variant(r) else '?') + ':' + (show(r)[:90] if (interp.res_variant(r) and interp.res_variant(r)[0] == 'Err') else '') for s, r in outs))
for s, r in outs:
    rv = interp.res_variant(r)
    if only_ok and not (rv and rv[0] == 'Ok'): continue
    print('---', show(r)[:3000])
    for e in s.events:
        if e[0] in ('assert',): continue
        print('      ', e[0], ' | '.join(show(x) if isinstance(x, tuple) and x and isinstance(x[0], str) else str(x) for x in e[1:])[:1500])
print('unmodelled', I.unmodelled)
