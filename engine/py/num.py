"""Length reasoning for decoders (DESIGN 2.2 'Num'): linear length expressions over one unknown
n = len(input), and the set of n allowed by the comparisons a path assumed.  No solver: each
constraint is a comparison of a linear expression with a constant, intersected on a finite window."""
from terms import *  # noqa

WINDOW = 4096   # every concrete bound in the library is far below this; n >= WINDOW is represented by the flag `unbounded`


def lin(t, var):
    """(a, b) with t = a*len(var) + b, or None"""
    if t is None:
        return None
    if t[0] == 'int':
        return (0, t[1])
    if t[0] == 'app':
        f, a = t[1], t[2]
        if f == 'len':
            x = a[0]
            if x == var:
                return (1, 0)
            if x[0] == 'app' and x[1] == 'Slice':
                lo, hi = lin(x[2][1], var), lin(x[2][2], var)
                if lo is not None and hi is not None:
                    return (hi[0] - lo[0], hi[1] - lo[1])
                return None
            if mentions(x, var):
                return None
            l = tlen(x)
            if l is not None:
                return (0, l)
            return None
        if f in ('Add', 'Sub') and len(a) == 2:
            x, y = lin(a[0], var), lin(a[1], var)
            if x is None or y is None:
                return None
            return (x[0] + y[0], x[1] + y[1]) if f == 'Add' else (x[0] - y[0], x[1] - y[1])
        if f == 'Mul' and len(a) == 2:
            x, y = lin(a[0], var), lin(a[1], var)
            if x is None or y is None:
                return None
            if x[0] == 0:
                return (x[1] * y[0], x[1] * y[1])
            if y[0] == 0:
                return (y[1] * x[0], y[1] * x[1])
    return None


class Lens:
    """set of admissible values of n = len(input): a subset of [0, WINDOW) plus 'unbounded' (every n >= WINDOW allowed)"""

    def __init__(self):
        self.ok = [True] * WINDOW
        self.unbounded = True
        self.reasons = []
        self.unknown = []

    def restrict(self, pred, unbounded_ok, why):
        self.ok = [o and pred(n) for n, o in enumerate(self.ok)]
        self.unbounded = self.unbounded and unbounded_ok
        self.reasons.append(why)

    def cmp(self, op, l, c, truth, why):
        """constraint (a*n+b op c) == truth"""
        a, b = l
        f = {'Eq': lambda x: x == c, 'Ne': lambda x: x != c, 'Lt': lambda x: x < c, 'Le': lambda x: x <= c,
             'Gt': lambda x: x > c, 'Ge': lambda x: x >= c}[op]
        if a == 0:
            if bool(f(b)) != bool(truth):
                self.restrict(lambda n: False, False, why + ' (contradiction)')
            return
        big = f(a * (10 ** 9) + b)
        self.restrict(lambda n: bool(f(a * n + b)) == bool(truth), bool(big) == bool(truth), why)

    def member(self, l, allowed, at_least, why):
        """a*n+b in `allowed` (finite set) or >= at_least"""
        a, b = l
        if a == 0:
            v = b
            if not (v in allowed or (at_least is not None and v >= at_least)):
                self.restrict(lambda n: False, False, why + ' (contradiction)')
            return
        self.restrict(lambda n: (a * n + b) in allowed or (at_least is not None and a * n + b >= at_least),
                      at_least is not None and a > 0, why)

    def values(self):
        return [n for n, o in enumerate(self.ok) if o]

    def describe(self):
        v = self.values()
        if self.unbounded:
            lo = v[0] if v else WINDOW
            return '[%d, inf)' % lo if v == list(range(lo, WINDOW)) else '%s.. and unbounded' % v[:6]
        if not v:
            return 'empty'
        if v == list(range(v[0], v[-1] + 1)):
            return '[%d, %d]' % (v[0], v[-1]) if len(v) > 1 else '{%d}' % v[0]
        return '{%s}' % ','.join(map(str, v[:12]))


# accepted input lengths (Ok => len in ...) of dependency decoders, DESIGN 3.6.  value: (finite set, at_least) per suite params
def leaf_len_summary(name, P):
    """returns (allowed_set, at_least) for the *argument length* of a leaf decoder's Ok outcome"""
    if name in ('voprf::BlindedElement::deserialize', 'voprf::EvaluationElement::deserialize'):
        return set(), P['Noe']          # consumes a prefix: any longer input is accepted (voprf 0.5.0 serialization.rs)
    if name == 'voprf::OprfClient::deserialize':
        return set(), P['Nok']
    return None


def path_lengths(path, var, P, kegroup_summary=None):
    """admissible n = len(var) on this path, from its assumptions and leaf-decoder outcomes"""
    L = Lens()
    for e in path.events:
        if e[0] == 'assume':
            t, v = e[1], e[2]
            if t[0] == 'app' and t[1] in ('Eq', 'Ne', 'Lt', 'Le', 'Gt', 'Ge') and isinstance(v, int):
                x, y = lin(t[2][0], var), lin(t[2][1], var)
                if x is None or y is None:
                    if mentions(t, var):
                        L.unknown.append(show(t)[:120])
                    continue
                # normalise to (a*n + b) op c
                if y[0] != 0 and x[0] == 0:
                    flip = {'Lt': 'Gt', 'Le': 'Ge', 'Gt': 'Lt', 'Ge': 'Le', 'Eq': 'Eq', 'Ne': 'Ne'}[t[1]]
                    L.cmp(flip, y, x[1], v, '%s = %s' % (show(t)[:80], v))
                elif y[0] == 0:
                    L.cmp(t[1], x, y[1], v, '%s = %s' % (show(t)[:80], v))
                else:
                    L.unknown.append(show(t)[:120])
        elif e[0] == 'outcome' and e[2] in ('Ok', 'Some') and e[1][0] == 'app':
            name = e[1][1]
            args = e[1][2]
            if name == 'try_into_array':
                l = lin(App('len', args[0]), var)
                if l is not None:
                    L.cmp('Eq', l, args[1][1], 1, 'try_into [u8; %d]' % args[1][1])
                elif mentions(args[0], var):
                    L.unknown.append(show(e[1])[:120])
                continue
            summ = leaf_len_summary(name, P)
            if summ is None and kegroup_summary is not None and name in kegroup_summary:
                summ = kegroup_summary[name]
            if summ is not None and args:
                l = lin(App('len', args[0]), var)
                if l is not None:
                    L.member(l, summ[0], summ[1], '%s Ok' % name)
                elif mentions(args[0], var):
                    L.unknown.append(show(e[1])[:120])
    return L


DEP_LEAF = {
    # dependency decoder -> (allowed lengths as function of P, at_least)      [DESIGN 3.6, pinned to Cargo.lock versions]
    'curve25519_dalek::ristretto::CompressedRistretto::from_slice': lambda P: ({32}, None),
    'elliptic_curve::public_key::PublicKey::from_sec1_bytes': lambda P: ({1 + P['Nsk'], 1 + 2 * P['Nsk']}, None),
    'elliptic_curve::secret_key::SecretKey::from_slice': lambda P: (set(range(24, P['Nsk'] + 1)), None),
}
PINNED = {'voprf': '0.5.0', 'elliptic-curve': '0.13.8', 'sec1': '0.7.3', 'curve25519-dalek': '4.1.3', 'generic-array': '0.14.7',
          'hkdf': '0.12.4', 'hmac': '0.12.1', 'digest': '0.10.7', 'subtle': '2.6.1', 'rand_core': '0.6.4'}


def check_pinned(repo):
    """dependency summaries are only valid for the versions that were read (DESIGN 2.4): returns list of mismatches"""
    import re, os
    txt = open(os.path.join(repo, 'Cargo.lock')).read()
    bad = []
    for name, ver in PINNED.items():
        vs = re.findall(r'name = "%s"\nversion = "([^"]+)"' % re.escape(name), txt)
        if ver not in vs:
            bad.append('%s: reviewed %s, Cargo.lock has %s' % (name, ver, vs))
    return bad
