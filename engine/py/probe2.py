import sys, json, collections, time
sys.path.insert(0, '/verif/engine/py')
import facts, interp, models
from terms import *
d = facts.ensure()
g = facts.load(d, 'g-all')
adts = {a['dpath']: [v['name'] for v in a['variants']] for a in g['adts']}
suite_name = sys.argv[1]
S = interp.Suite(facts.load(d, 'm-' + suite_name))
for target in sys.argv[2:]:
    cands = [b for gp, bs in S.by_generic.items() if gp.endswith(target) for b in bs]
    for b in cands:
        params = [Sym(l['name'] or 'arg%d' % i) for i, l in enumerate(b['locals'][1:1+b['argc']], 1)]
        t0 = time.time()
        I, outs = interp.summarize(S, b, params, adts=adts)
        c = collections.Counter((interp.res_variant(r)[0] if interp.res_variant(r) else '?') for s, r in outs)
        print(b['generic_path'], [p[1] for p in params], 'paths', len(outs), dict(c), 'time %.2f' % (time.time()-t0), 'notes', I.notes[:3], 'unmodelled', I.unmodelled)
