"""Spec terms transcribed from RFC 9807 (OPAQUE-3DH) and RFC 9497 (OPRF), in the term language.

Nothing here is read from the code under analysis: the builders take *component* terms (e.g. the
three DH values, the preamble parts) and return what the RFC says the derived value is.
"""
from terms import *  # noqa
import terms


def lit(b):
    return Bytes(b)


def i2osp_len(x, w):
    l = tlen(x)
    if l is not None:
        return Bytes(l.to_bytes(w, 'big'))
    return App('I2OSP', App('len', x), Int(w))


def lp(w, x):
    """I2OSP(len(x), w) || x"""
    return Cat([i2osp_len(x, w), x])


def hash_(x, Nh):
    t = App('Hash', x)
    terms.note_len(t, Nh)
    return t


def expand(prk, info, L):
    t = App('Expand', prk, info, Int(L))
    terms.note_len(t, L)
    return t


def extract(salt, ikm, Nh):
    t = App('Extract', salt, ikm)
    terms.note_len(t, Nh)
    return t


def mac(k, m, Nh):
    t = App('Mac', k, m)
    terms.note_len(t, Nh)
    return t


def expand_label(secret, label, context, Nh):
    """RFC 9807 4.? Expand-Label(Secret, Label, Context, Length) with Length = Nh:
    CustomLabel = I2OSP(Length,2) || I2OSP(len("OPAQUE-"+Label),1) || "OPAQUE-"+Label || I2OSP(len(Context),1) || Context"""
    full = b'OPAQUE-' + label
    info = Cat([Bytes(Nh.to_bytes(2, 'big')), Bytes(bytes([len(full)])), Bytes(full), i2osp_len(context, 1), context])
    return expand(secret, info, Nh)


def key_schedule(ikm, preamble, Nh):
    """RFC 9807 6.4.2.2 DeriveKeys + the two MACs of 6.4.3/6.4.4"""
    prk = extract(Bytes(b''), ikm, Nh)
    hpre = hash_(preamble, Nh)
    hs = expand_label(prk, b'HandshakeSecret', hpre, Nh)
    session_key = expand_label(prk, b'SessionKey', hpre, Nh)
    km2 = expand_label(hs, b'ServerMAC', Bytes(b''), Nh)
    km3 = expand_label(hs, b'ClientMAC', Bytes(b''), Nh)
    server_mac = mac(km2, hpre, Nh)
    hpre2 = hash_(Cat([preamble, server_mac]), Nh)
    client_mac = mac(km3, hpre2, Nh)
    return {'prk': prk, 'hpre': hpre, 'handshake_secret': hs, 'session_key': session_key, 'km2': km2, 'km3': km3,
            'server_mac': server_mac, 'hpre2': hpre2, 'client_mac': client_mac}


def preamble(context, id_u, ke1, id_s, cred_response_without_ke, server_nonce, server_e_pk_bytes):
    """RFC 9807 6.4.2.1 Preamble: "OPAQUEv1-" || I2OSP(len(context),2) || context || I2OSP(len(idU),2) || idU || KE1 ||
    I2OSP(len(idS),2) || idS || credential_response || server_nonce || server_public_keyshare"""
    return Cat([Bytes(b'OPAQUEv1-'), lp(2, context), lp(2, id_u), ke1, lp(2, id_s), cred_response_without_ke,
                server_nonce, server_e_pk_bytes])


def randomized_pwd(oprf_output, stretched, Nh):
    """RFC 9807 5.? randomized_password = Extract("", concat(oprf_output, Stretch(oprf_output)))"""
    return extract(Bytes(b''), Cat([oprf_output, stretched]), Nh)


def envelope_keys(rp, nonce, Nh, Nsk):
    return {
        'masking_key': expand(rp, Bytes(b'MaskingKey'), Nh),
        'auth_key': expand(rp, Cat([nonce, Bytes(b'AuthKey')]), Nh),
        'export_key': expand(rp, Cat([nonce, Bytes(b'ExportKey')]), Nh),
        'seed': expand(rp, Cat([nonce, Bytes(b'PrivateKey')]), Nsk),
    }


def cleartext_credentials(server_pk_bytes, id_s, id_u):
    """CreateCleartextCredentials: server_public_key || I2OSP(len(idS),2) || idS || I2OSP(len(idU),2) || idU"""
    return Cat([server_pk_bytes, lp(2, id_s), lp(2, id_u)])


def auth_tag(auth_key, nonce, cleartext, Nh):
    return mac(auth_key, Cat([nonce, cleartext]), Nh)


def oprf_key_seed(oprf_seed, cred_id, Nok):
    """seed = Expand(oprf_seed, concat(credential_identifier, "OprfKey"), Nok)"""
    return expand(oprf_seed, Cat([cred_id, Bytes(b'OprfKey')]), Nok)


def credential_response_pad(masking_key, masking_nonce, Npk, Nn, Nm):
    return expand(masking_key, Cat([masking_nonce, Bytes(b'CredentialResponsePad')]), Npk + Nn + Nm)


DERIVE_KEYPAIR_INFO = b'OPAQUE-DeriveKeyPair'
DERIVE_DH_INFO = b'OPAQUE-DeriveDiffieHellmanKeyPair'

LABELS = [b'OPAQUEv1-', b'OprfKey', b'MaskingKey', b'AuthKey', b'ExportKey', b'PrivateKey', b'CredentialResponsePad',
          b'HandshakeSecret', b'SessionKey', b'ServerMAC', b'ClientMAC', b'OPAQUE-DeriveKeyPair',
          b'OPAQUE-DeriveDiffieHellmanKeyPair']
