"""Fact extraction: runs the rustc_private driver over /repo's current working tree.

G-mode: the production library (`cargo +nightly check --lib --all-features` in /repo).
M-mode: the harness crate `suites` (path-depends on /repo), one fact file per suite.

Facts are cached under /verif/.work/facts/<hash>/ where <hash> covers every input of the
extraction (repo sources, manifests, harness, driver), so an edited tree is always re-analysed.
"""
import fcntl
import hashlib
import json
import os
import shutil
import subprocess
import sys
import time

VERIF = os.path.dirname(os.path.dirname(os.path.dirname(os.path.abspath(__file__))))
REPO = os.environ.get('OPQ_REPO', '/repo')
WORK = os.environ.get('OPQ_WORK') or os.path.join(VERIF, '.work')
DRIVER_DIR = os.path.join(VERIF, 'engine', 'driver')
DRIVER = os.path.join(DRIVER_DIR, 'target', 'release', 'opqmir')
HARNESS = os.path.join(VERIF, 'engine', 'harness', 'suites')
FIXTURES = os.path.join(VERIF, 'engine', 'fixtures')
VGROUP = os.path.join(VERIF, 'engine', 'harness', 'vgroup')

OPRF = ['r255', 'p256', 'p384', 'p521']
KE = ['r255', 'p256', 'p384', 'p521', 'c25519']
ALL_SUITES = ['%s_%s' % (o, k) for o in OPRF for k in KE]
# quick tier: every OPRF suite and every KE group at least once
QUICK_SUITES = ['r255_r255', 'p256_c25519', 'p384_p521', 'p521_p256', 'r255_p384']


def _crate_dir(src_dir, name):
    """the harness / fixtures crate to compile: the checked-in one, or (when OPQ_REPO points at another copy of the repository, used by
    tools/seeds.py to evaluate patches without touching /repo) a private copy whose path dependency points there"""
    if REPO == '/repo':
        return src_dir
    dst = os.path.join(WORK, 'crates', name)
    if os.path.isdir(dst):
        shutil.rmtree(dst)
    shutil.copytree(src_dir, dst, ignore=shutil.ignore_patterns('target', 'Cargo.lock'))
    p = os.path.join(dst, 'Cargo.toml')
    txt = open(p).read().replace('path = "/repo"', 'path = "%s"' % REPO)
    open(p, 'w').write(txt)
    return dst


class MachineryError(Exception):
    """The analyser itself could not run (exit 2, no VIOLATION line)."""


def _sha_file(h, path):
    h.update(path.encode())
    with open(path, 'rb') as f:
        h.update(f.read())


def _walk(root, exts=None):
    out = []
    for d, dirs, files in os.walk(root):
        dirs[:] = sorted(x for x in dirs if x not in ('target', '.git'))
        for fn in sorted(files):
            if exts is None or os.path.splitext(fn)[1] in exts:
                out.append(os.path.join(d, fn))
    return out


def tree_hash():
    h = hashlib.sha256()
    for p in _walk(os.path.join(REPO, 'src')):
        _sha_file(h, p)
    for fn in ('Cargo.toml', 'Cargo.lock', 'build.rs'):
        p = os.path.join(REPO, fn)
        if os.path.exists(p):
            _sha_file(h, p)
    for p in _walk(os.path.join(HARNESS, 'src')) + [os.path.join(HARNESS, 'Cargo.toml')]:
        _sha_file(h, p)
    for p in _walk(os.path.join(DRIVER_DIR, 'src')):
        _sha_file(h, p)
    if os.path.isdir(FIXTURES):
        for p in _walk(os.path.join(FIXTURES, 'src')) + [os.path.join(FIXTURES, 'Cargo.toml')]:
            if os.path.exists(p):
                _sha_file(h, p)
    for p in _walk(os.path.join(VGROUP, 'src')) + [os.path.join(VGROUP, 'Cargo.toml')]:
        _sha_file(h, p)
    return h.hexdigest()[:20]


def _env(extra):
    env = dict(os.environ)
    sysroot = subprocess.check_output(['rustc', '+nightly', '--print', 'sysroot'], text=True).strip()
    env['LD_LIBRARY_PATH'] = sysroot + '/lib' + (':' + env['LD_LIBRARY_PATH'] if env.get('LD_LIBRARY_PATH') else '')
    env['RUSTFLAGS'] = '-Zmir-opt-level=0 -Awarnings -Zalways-encode-mir'
    env['RUSTC_WORKSPACE_WRAPPER'] = DRIVER
    env['CARGO_NET_OFFLINE'] = 'true'
    env.pop('RUSTC_WRAPPER', None)
    env.update(extra)
    return env


def ensure_driver():
    src_m = max(os.path.getmtime(p) for p in _walk(os.path.join(DRIVER_DIR, 'src')))
    if os.path.exists(DRIVER) and os.path.getmtime(DRIVER) >= src_m:
        return
    r = subprocess.run(['cargo', 'build', '--release', '--offline'], cwd=DRIVER_DIR, capture_output=True, text=True,
                       env=dict(os.environ, CARGO_NET_OFFLINE='true'))
    if r.returncode != 0 or not os.path.exists(DRIVER):
        raise MachineryError('driver build failed:\n' + r.stderr[-3000:])


def _rm_fingerprints(target, prefix):
    fp = os.path.join(target, 'debug', '.fingerprint')
    if os.path.isdir(fp):
        for d in os.listdir(fp):
            if d.startswith(prefix):
                shutil.rmtree(os.path.join(fp, d), ignore_errors=True)


def _run_cargo(args, cwd, env, what):
    r = subprocess.run(args, cwd=cwd, env=env, capture_output=True, text=True)
    if r.returncode != 0:
        raise MachineryError('%s: cargo failed (the tree does not compile for the analyser):\n%s' % (what, r.stderr[-4000:]))
    return r.stderr


def _extract_g(outdir, tag, features):
    target = os.path.join(WORK, 'tg-' + tag)
    for attempt in (0, 1):
        _rm_fingerprints(target, 'opaque-ke-')
        env = _env({'OPQ_MODE': 'G', 'OPQ_CRATE': 'opaque_ke', 'OPQ_OUT_DIR': outdir, 'OPQ_TAG': tag,
                    'CARGO_TARGET_DIR': target})
        _run_cargo(['cargo', '+nightly', 'check', '--lib', '--offline'] + features, REPO, env, 'G-mode(%s)' % tag)
        if os.path.exists(os.path.join(outdir, 'g-%s.json' % tag)):
            return
        shutil.rmtree(target, ignore_errors=True)
    raise MachineryError('G-mode(%s): driver produced no fact file' % tag)


MIN_FEATURES = 'default-features = false, features = ["ristretto255-voprf", "curve25519", "argon2"]'
FULL_FEATURES = 'features = ["curve25519", "std", "argon2", "serde"]'


def _min_crate_dir():
    """private copy of the harness whose dependency on the library switches the `serde` and `std` features off (what a
    `default-features = false` user links); everything else identical"""
    dst = os.path.join(WORK, 'crates', 'suites-min')
    if os.path.isdir(dst):
        shutil.rmtree(dst)
    shutil.copytree(HARNESS, dst, ignore=shutil.ignore_patterns('target', 'Cargo.lock'))
    p = os.path.join(dst, 'Cargo.toml')
    txt = open(p).read()
    if FULL_FEATURES not in txt:
        raise MachineryError('harness manifest: feature list of the opaque-ke dependency not found')
    txt = txt.replace(FULL_FEATURES, MIN_FEATURES).replace('path = "/repo"', 'path = "%s"' % REPO)
    open(p, 'w').write(txt)
    return dst


def _extract_m(outdir, release=False, minimal=False):
    """release=True: the same walk with debug assertions and overflow checks off (what `cargo build --release` links);
    minimal=True: the same walk with the library's `serde` and `std` features off"""
    target = os.path.join(WORK, 'tm-min' if minimal else ('tm-rel' if release else 'tm'))
    odir = os.path.join(outdir, 'min') if minimal else (os.path.join(outdir, 'rel') if release else outdir)
    os.makedirs(odir, exist_ok=True)
    hdir = _min_crate_dir() if minimal else _crate_dir(HARNESS, 'suites')
    shutil.copyfile(os.path.join(REPO, 'Cargo.lock'), os.path.join(hdir, 'Cargo.lock'))
    for attempt in (0, 1):
        _rm_fingerprints(target, 'suites-')
        extra = {'OPQ_MODE': 'M', 'OPQ_CRATE': 'suites', 'OPQ_OUT_DIR': odir, 'OPQ_SUITES': 'all', 'CARGO_TARGET_DIR': target}
        env = _env(extra)
        if release:
            env['RUSTFLAGS'] += ' -Cdebug-assertions=off -Coverflow-checks=off'
        _run_cargo(['cargo', '+nightly', 'check', '--lib', '--offline'], hdir, env, 'M-mode' + ('(release cfg)' if release else '') + ('(min features)' if minimal else ''))
        if os.path.exists(os.path.join(odir, 'm-DONE')):
            return
        shutil.rmtree(target, ignore_errors=True)
    raise MachineryError('M-mode: driver produced no fact files')


def _extract_f(outdir):
    """fixtures crate (self-test of the zero-expected-count scans): monomorphic walk from its roots + generic facts"""
    if not os.path.isdir(FIXTURES):
        return
    target = os.path.join(WORK, 'tm')
    fxdir = _crate_dir(FIXTURES, 'fixtures')
    shutil.copyfile(os.path.join(REPO, 'Cargo.lock'), os.path.join(fxdir, 'Cargo.lock'))
    fdir = os.path.join(outdir, 'fx')
    os.makedirs(fdir, exist_ok=True)
    for mode, marker in (('M', 'm-DONE'), ('G', 'g-fx.json')):
        for attempt in (0, 1):
            _rm_fingerprints(target, 'fixtures-')
            env = _env({'OPQ_MODE': mode, 'OPQ_CRATE': 'fixtures', 'OPQ_OUT_DIR': fdir, 'OPQ_SUITES': 'all', 'OPQ_TAG': 'fx',
                        'CARGO_TARGET_DIR': target})
            _run_cargo(['cargo', '+nightly', 'check', '--lib', '--offline'], fxdir, env, 'fixtures(%s)' % mode)
            if os.path.exists(os.path.join(fdir, marker)):
                break
            shutil.rmtree(target, ignore_errors=True)
        else:
            raise MachineryError('fixtures(%s): driver produced no fact files' % mode)


def _extract_v(outdir):
    """the crate's forwarding `impl voprf::Group for opaque_ke::Ristretto255`, walked from a root of its own (engine/harness/vgroup)"""
    target = os.path.join(WORK, 'tm')
    vdir = _crate_dir(VGROUP, 'vgroup')
    shutil.copyfile(os.path.join(REPO, 'Cargo.lock'), os.path.join(vdir, 'Cargo.lock'))
    odir = os.path.join(outdir, 'vg')
    os.makedirs(odir, exist_ok=True)
    for attempt in (0, 1):
        _rm_fingerprints(target, 'vgroup-')
        env = _env({'OPQ_MODE': 'M', 'OPQ_CRATE': 'vgroup', 'OPQ_OUT_DIR': odir, 'OPQ_SUITES': 'all', 'CARGO_TARGET_DIR': target})
        _run_cargo(['cargo', '+nightly', 'check', '--lib', '--offline'], vdir, env, 'vgroup(M)')
        if os.path.exists(os.path.join(odir, 'm-DONE')):
            return
        shutil.rmtree(target, ignore_errors=True)
    raise MachineryError('vgroup(M): driver produced no fact files')


G_CONFIGS = {
    'all': ['--all-features'],
    'default': [],
    'nodefault': ['--no-default-features'],
}


def ensure(thorough=False):
    """Return the facts directory for the current tree, extracting if needed."""
    os.makedirs(os.path.join(WORK, 'facts'), exist_ok=True)
    lock = open(os.path.join(WORK, 'lock'), 'w')
    fcntl.flock(lock, fcntl.LOCK_EX)
    try:
        ensure_driver()
        h = tree_hash()
        outdir = os.path.join(WORK, 'facts', h)
        os.makedirs(outdir, exist_ok=True)
        t0 = time.time()
        did = []
        if not os.path.exists(os.path.join(outdir, 'g-all.json')):
            _extract_g(outdir, 'all', G_CONFIGS['all']); did.append('G(all)')
        if not os.path.exists(os.path.join(outdir, 'm-DONE')):
            _extract_m(outdir); did.append('M')
        if not os.path.exists(os.path.join(outdir, 'rel', 'm-DONE')):
            _extract_m(outdir, release=True); did.append('M(release cfg)')
        if not os.path.exists(os.path.join(outdir, 'min', 'm-DONE')):
            _extract_m(outdir, minimal=True); did.append('M(min features)')
        if not os.path.exists(os.path.join(outdir, 'vg', 'm-DONE')):
            _extract_v(outdir); did.append('vgroup')
        if os.path.isdir(FIXTURES) and not (os.path.exists(os.path.join(outdir, 'fx', 'm-DONE')) and os.path.exists(os.path.join(outdir, 'fx', 'g-fx.json'))):
            _extract_f(outdir); did.append('fixtures')
        if thorough:
            for tag in ('default', 'nodefault'):
                if not os.path.exists(os.path.join(outdir, 'g-%s.json' % tag)):
                    _extract_g(outdir, tag, G_CONFIGS[tag]); did.append('G(%s)' % tag)
        if did:
            sys.stderr.write('[facts] extracted %s in %.1fs -> %s\n' % (','.join(did), time.time() - t0, outdir))
        # prune old fact dirs (keep the 3 most recent)
        base = os.path.join(WORK, 'facts')
        dirs = sorted((os.path.getmtime(os.path.join(base, d)), d) for d in os.listdir(base))
        for _, d in dirs[:-8]:
            if d != h:
                shutil.rmtree(os.path.join(base, d), ignore_errors=True)
        os.utime(outdir)
        return outdir
    finally:
        fcntl.flock(lock, fcntl.LOCK_UN)
        lock.close()


_CACHE = {}


def load(outdir, name):
    key = (outdir, name)
    if key not in _CACHE:
        with open(os.path.join(outdir, name + '.json')) as f:
            _CACHE[key] = json.load(f)
    return _CACHE[key]


if __name__ == '__main__':
    d = ensure(thorough='--thorough' in sys.argv)
    print(d)
    print(sorted(os.listdir(d)))
