"""Path-partitioned abstract interpretation of monomorphic MIR (M-facts) over the term domain.

No path conditions are solved and no feasibility query is asked: every syntactic branch whose
scrutinee is not a literal is explored (trace partitioning); what a path *assumed* is recorded
in its event trace so that rules can read it ("on every Ok path, event E happened with outcome ok").
"""
import sys

from terms import *  # noqa
import terms

sys.setrecursionlimit(200000)

KEGROUP = 'opaque_ke::key_exchange::group::KeGroup'
KSF = 'opaque_ke::ksf::Ksf'
SECRETKEY = 'opaque_ke::keypair::SecretKey'
VGROUP = 'voprf::group::Group'


class Stop(Exception):
    pass


class Suite:
    """facts of one monomorphic suite"""

    def __init__(self, facts):
        self.name = facts.get('suite')
        self.bodies = {b['id']: b for b in facts['bodies']}
        self.leaves = {l['id']: l for l in facts['leaves']}
        self.types = facts.get('types', {})
        self.by_generic = {}
        for b in facts['bodies']:
            self.by_generic.setdefault(b['generic_path'], []).append(b)
        self._i2osp = None

    def find(self, generic_path, must=True):
        c = self.by_generic.get(generic_path, [])
        if len(c) == 1:
            return c[0]
        if not c and not must:
            return None
        raise KeyError('%s: %d instances of %s' % (self.name, len(c), generic_path))

    def find_suffix(self, suffix, crate=None):
        out = [b for gp, bs in self.by_generic.items() if gp.endswith(suffix) for b in bs
               if crate is None or b['crate'] == crate]
        return out

    def leaf_paths(self, ty, prefix=()):
        """field paths down to the first type that is not an opaque_ke struct (e.g. byte arrays, voprf elements, curve points)"""
        t = self.types.get(ty)
        if not t or t['crate'] != 'opaque_ke' or t['kind'] != 'struct':
            return [(prefix, ty)]
        out = []
        for f in t['variants'][0]['fields']:
            out.extend(self.leaf_paths(f['ty'], prefix + (f['name'],)))
        return out

    def leaf_chains(self, ty, prefix=(), chain=()):
        """like leaf_paths, with the chain of types walked: [(names, (type of root, ..., leaf type))]"""
        t = self.types.get(ty)
        chain = chain + (ty,)
        if not t or t['crate'] != 'opaque_ke' or t['kind'] != 'struct':
            return [(prefix, chain)]
        out = []
        for f in t['variants'][0]['fields']:
            out.extend(self.leaf_chains(f['ty'], prefix + (f['name'],), chain))
        return out

    def role(self, ty, what):
        """field-name paths identified by *type role*, never by name (private fields may be renamed):
        'eval' / 'blinded': the voprf element leaf; 'pubkeys': fields of type PublicKey; 'nonces': direct byte-array fields of 32 bytes;
        'field:<TypeName>': the direct field whose type is <TypeName><...>"""
        ty = ty.lstrip('&')
        out = []
        if what in ('eval', 'blinded'):
            want = 'voprf::common::EvaluationElement<' if what == 'eval' else 'voprf::common::BlindedElement<'
            out = [n for n, c in self.leaf_chains(ty) if c[-1].startswith(want)]
        elif what == 'pubkeys':
            for n, c in self.leaf_chains(ty):
                if len(c) >= 2 and '::PublicKey<' in c[-2] and c[-2].startswith('opaque_ke::'):
                    out.append(n[:-1])
        elif what == 'nonces':
            t = self.types.get(ty)
            if t:
                out = [(f['name'],) for f in t['variants'][0]['fields'] if f['ty'] == 'generic_array::GenericArray<u8, U32>']
        elif what.startswith('field:'):
            t = self.types.get(ty)
            if t:
                out = [(f['name'],) for f in t['variants'][0]['fields'] if ('::' + what[6:] + '<') in f['ty'] or f['ty'].startswith(what[6:] + '<')]
        return out

    def param_type(self, body, idx):
        return body['locals'][idx]['ty']

    def i2osp_ids(self):
        """the crate's integer-to-octet-string helper, recognised by shape (DESIGN 3.2-4):
        crate-local fn(usize) -> Result<GenericArray<u8, _>, _> whose body calls usize::to_be_bytes"""
        if self._i2osp is None:
            ids = {}
            for b in self.bodies.values():
                if b['crate'] != 'opaque_ke' or b['argc'] != 1:
                    continue
                if b['locals'][1]['ty'] != 'usize':
                    continue
                rt = b['locals'][0]['ty']
                if not rt.startswith('std::result::Result<generic_array::GenericArray<u8, U'):
                    continue
                calls = [bb['term']['callee'].get('path', '') for bb in b['blocks'] if bb['term']['k'] == 'call']
                if any('to_be_bytes' in c for c in calls):
                    w = int(rt.split('GenericArray<u8, U')[1].split('>')[0])
                    ids[b['id']] = w
            self._i2osp = ids
        return self._i2osp


class GSuite(Suite):
    """generic (G-mode) facts of the production library wrapped as a suite: bodies get synthetic ids; callees are
    not resolved, so only models, trait-level uninterpreted calls and unambiguous crate-local paths are followed"""

    def __init__(self, facts):
        self.name = 'generic'
        self.bodies = {}
        self.leaves = {}
        self.types = {}
        self.by_generic = {}
        self.by_path = {}
        self._i2osp = {}
        for i, b in enumerate(facts['bodies']):
            b = dict(b)
            b['id'] = i
            b['generic_path'] = 'opaque_ke::' + b['path']
            self.bodies[i] = b
            self.by_generic.setdefault(b['generic_path'], []).append(b)
            self.by_path.setdefault(b['path'], []).append(b)

    def i2osp_ids(self):
        return {}


class State:
    __slots__ = ('cells', 'events', 'assume', 'rng', 'next_addr', 'facts')

    def __init__(s):
        s.cells = {}
        s.events = ()
        s.assume = {}
        s.rng = 0
        s.next_addr = 0
        s.facts = ()

    def copy(s):
        n = State()
        n.cells = dict(s.cells)
        n.events = s.events
        n.assume = dict(s.assume)
        n.rng = s.rng
        n.next_addr = s.next_addr
        n.facts = s.facts
        return n

    def alloc(s, v=None):
        a = s.next_addr
        s.next_addr += 1
        s.cells[a] = v
        return a

    def ev(s, *e):
        s.events = s.events + (e,)


def get_field(v, name, idx=None):
    if v is None:
        return ('unk', 'uninit.' + str(name))
    k = v[0]
    if k == 'adt':
        for n, x in v[3]:
            if n == name:
                return x
        if idx is not None and idx < len(v[3]):
            return v[3][idx][1]
        return ('fld', v, name)
    if k == 'tuple':
        i = int(idx if idx is not None else name)
        if i < len(v[1]):
            return v[1][i]
        return ('unk', 'tuple-oob')
    if k == 'closure':
        i = int(idx if idx is not None else name)
        if i < len(v[2]):
            return v[2][i]
        return ('unk', 'upvar-oob')
    if k == 'partial':
        for n, x in v[1]:
            if n == name:
                return x
        return ('unk', 'uninit.' + str(name))
    return ('fld', v, name)


def set_field(v, name, idx, newv):
    if v is not None and v[0] == 'adt':
        fs = [(n, (newv if n == name else x)) for n, x in v[3]]
        return ('adt', v[1], v[2], tuple(fs))
    if v is not None and v[0] == 'tuple':
        l = list(v[1])
        l[int(idx)] = newv
        return ('tuple', tuple(l))
    d = dict(v[1]) if (v is not None and v[0] == 'partial') else {}
    d[name] = newv
    return ('partial', tuple(sorted(d.items(), key=lambda kv: str(kv[0]))))


def apply_steps(v, steps):
    for s in steps:
        if s[0] == 'f':
            v = get_field(v, s[1], s[2])
        elif s[0] == 'd':
            if v is not None and v[0] == 'adt':
                pass
            else:
                v = ('as', v, s[1])
        elif s[0] == 's':
            v = mk_slice(v, s[1], s[2])
        elif s[0] == 'i':
            if v is not None and v[0] in ('array', 'tuple', 'list') and s[1][0] == 'int' and s[1][1] < len(v[1]):
                v = v[1][s[1][1]]
            elif v is not None and v[0] == 'bytes' and s[1][0] == 'int' and s[1][1] < len(v[1]):
                v = Int(v[1][s[1][1]])
            else:
                v = App('index', v, s[1])
    return v


def deref_val(st, v):
    seen = 0
    while v is not None and v[0] == 'ref' and seen < 16:
        v = apply_steps(st.cells.get(v[1]), v[2])
        seen += 1
    return v


def freeze(st, v, d=0):
    """replace references by the values they point to (a snapshot usable after the state changes)"""
    if v is None or d > 24:
        return v
    k = v[0]
    if k == 'ref':
        return freeze(st, deref_val(st, v), d + 1)
    if k in ('tuple', 'array', 'list', 'hasher'):
        return (k, tuple(freeze(st, x, d + 1) for x in v[1]))
    if k == 'cat':
        return Cat([freeze(st, x, d + 1) for x in v[1]])
    if k == 'adt':
        return ('adt', v[1], v[2], tuple((n, freeze(st, x, d + 1)) for n, x in v[3]))
    if k == 'app':
        return ('app', v[1], tuple(freeze(st, x, d + 1) for x in v[2]))
    if k in ('fld', 'as'):
        return (k, freeze(st, v[1], d + 1), v[2])
    if k in ('mac', 'extract'):
        return (k, freeze(st, v[1], d + 1), tuple(freeze(st, x, d + 1) for x in v[2]))
    if k in ('hkdf', 'biter', 'discr'):
        return (k, freeze(st, v[1], d + 1))
    if k == 'closure':
        return (k, v[1], tuple(freeze(st, x, d + 1) for x in v[2]))
    if k == 'partial':
        return (k, tuple((n, freeze(st, x, d + 1)) for n, x in v[1]))
    return v


def res_variant(v):
    if v is not None and v[0] == 'adt' and v[2] in ('Ok', 'Err', 'Some', 'None', 'Continue', 'Break'):
        return v[2], (v[3][0][1] if v[3] else UNIT)
    return None


VARIANT_IDX = {'None': 0, 'Some': 1, 'Ok': 0, 'Err': 1, 'Continue': 0, 'Break': 1}


SHADOW_OK = ('core::clone::Clone::clone', 'core::default::Default::default', 'core::convert::From::from')


def callee_key(c):
    if c.get('trait_dpath'):
        return c['trait_dpath'] + '::' + c['name']
    if c.get('self_dpath'):
        return c['self_dpath'] + '::' + c['name']
    if 'path' in c:
        return strip_generics(c['path'])
    return '?'


class Interp:
    def __init__(self, suite, max_paths=20000, honest=False, inline_kegroup=False, adts=None):
        self.suite = suite
        self.max_paths = max_paths
        self.paths = 0
        self.unmodelled = {}
        self.honest = honest          # composite mode: decode(encode(x)) = x (DESIGN 3.2-7c)
        self.inline_kegroup = inline_kegroup
        self.fnitems = {}
        self.adts = adts or {}
        self.depth_cap = 40
        self.loop_cap = 300      # visits of one block on one path (a u8 counter loop needs 256)
        self.notes = []
        self.discr_types = {}
        self.diverged = []      # states of paths that ended in a panic / diverging call
        self.blocks = 0
        self.block_cap = 600000
        import time as _t
        self.deadline = _t.time() + 25.0

    # ---- places --------------------------------------------------------------------------------
    def resolve(self, st, frame, place):
        cur = ('cell', frame['locals'][place['l']], ())
        for e in place['p']:
            kind = e[0]
            if kind == 'deref':
                v = self.read_res(st, cur)
                if v is not None and v[0] == 'ref':
                    cur = ('cell', v[1], v[2])
                elif v is not None and v[0] == 'bitermut' and v[1] is not None and v[1][0] == 'ref':
                    # element-wise abstraction: `*x` for x drawn from iter_mut() stands for the whole buffer
                    cur = ('cell', v[1][1], v[1][2])
                else:
                    cur = ('val', v)
            elif kind == 'field':
                cur = self.proj(cur, ('f', e[2], e[1]))
            elif kind == 'downcast':
                cur = self.proj(cur, ('d', e[2], e[1]))
            elif kind == 'index':
                iv = st.cells[frame['locals'][e[1]]]
                cur = self.proj(cur, ('i', iv))
            elif kind == 'cidx':
                cur = self.proj(cur, ('i', Int(e[1])))
            else:
                cur = ('val', ('unk', 'proj:' + kind))
        return cur

    def proj(self, cur, step):
        if cur[0] == 'cell':
            return ('cell', cur[1], cur[2] + (step,))
        return ('val', apply_steps(cur[1], (step,)))

    def read_res(self, st, res):
        if res[0] == 'val':
            return res[1]
        return apply_steps(st.cells.get(res[1]), res[2])

    def write_res(self, st, res, val):
        if res[0] == 'val':
            st.ev('write-through-symbolic', show(res[1])[:80])
            return
        addr, steps = res[1], res[2]
        if not steps:
            st.cells[addr] = val
            return

        def upd(v, steps):
            s = steps[0]
            if s[0] == 's':
                inner = val if len(steps) == 1 else upd(mk_slice(v, s[1], s[2]), steps[1:])
                L = tlen(v)
                if s[1][0] == 'int' and s[2][0] == 'int' and L is not None:
                    return Cat([mk_slice(v, Int(0), s[1]), inner, mk_slice(v, s[2], Int(L))])
                return App('splice', v, s[1], s[2], inner)
            if len(steps) == 1:
                if s[0] == 'f':
                    return set_field(v, s[1], s[2], val)
                if s[0] == 'd':
                    return val
                if s[0] == 'i' and v is not None and v[0] in ('array', 'tuple') and s[1][0] == 'int':
                    l = list(v[1])
                    if s[1][1] < len(l):
                        l[s[1][1]] = val
                        return (v[0], tuple(l))
                return App('idxwrite', v, s[1], val)
            if s[0] == 'f':
                inner = get_field(v, s[1], s[2]) if v is not None else None
                return set_field(v, s[1], s[2], upd(inner, steps[1:]))
            if s[0] == 'd':
                return upd(v, steps[1:])
            return App('idxwrite', v, s[1], val)
        st.cells[addr] = upd(st.cells.get(addr), steps)

    # ---- operands / rvalues ----------------------------------------------------------------------
    def operand(self, st, frame, o):
        if o['k'] in ('copy', 'move'):
            return self.read_res(st, self.resolve(st, frame, o['place']))
        if o['k'] == 'const':
            c = o['c']
            if c.get('k') == 'fn':
                key = 'fn%d' % len(self.fnitems)
                self.fnitems[key] = c
                return ('fnitem', key)
            if 'adtc' in c:
                return self.const_adt(c['adtc'])
            if 'bytes' in c:
                return Bytes(bytes.fromhex(c['bytes']))
            if 'int' in c:
                return Int(c['int'])
            if c.get('zst'):
                return UNIT
            return ('unk', 'const:' + c.get('def', c.get('ty', '?')))
        return ('unk', 'operand')

    def const_adt(self, a):
        """a constant of one of the crate's own enum/struct types, destructured by the extractor"""
        fs = []
        for f in a['fields']:
            c = f['val']
            if 'adtc' in c:
                v = self.const_adt(c['adtc'])
            elif 'bytes' in c:
                v = Bytes(bytes.fromhex(c['bytes']))
            elif 'int' in c:
                v = Int(c['int'])
            elif c.get('zst'):
                v = UNIT
            else:
                v = ('unk', 'const:' + c.get('ty', '?'))
            fs.append((f['name'], v))
        return Adt(a['adt'], a['variant'], fs)

    def rvalue(self, st, frame, rv, dest_ty=None):
        k = rv['k']
        if k == 'use':
            return self.operand(st, frame, rv['op'])
        if k == 'copyforderef':
            return self.read_res(st, self.resolve(st, frame, rv['place']))
        if k in ('ref', 'rawptr'):
            res = self.resolve(st, frame, rv['place'])
            if res[0] == 'cell':
                return ('ref', res[1], res[2])
            return res[1]
        if k == 'aggr':
            ops = [self.operand(st, frame, o) for o in rv['ops']]
            ak = rv['akind']
            if ak == 'adt':
                v = Adt(rv.get('adt_dpath', rv['adt']), rv['variant'], list(zip(rv['fields'], ops)))
                if rv.get('adt_dpath', '').startswith('opaque_ke::'):
                    if rv['adt_dpath'] in ('opaque_ke::keypair::PublicKey', 'opaque_ke::keypair::PrivateKey'):
                        st.ev('construct', rv['adt_dpath'], rv['variant'], freeze(st, v))
                    else:
                        st.ev('construct', rv['adt_dpath'], rv['variant'])
                return v
            if ak == 'tuple':
                return ('tuple', tuple(ops)) if ops else UNIT
            if ak == 'array':
                return ('array', tuple(ops))
            if ak == 'closure':
                cid = rv.get('res', {}).get('id')
                if cid is None and rv.get('def') and getattr(self.suite, 'by_path', None):
                    # generic facts: the closure's own body, found by its definition path
                    cands = self.suite.by_path.get(rv['def'], [])
                    if len(cands) == 1:
                        cid = cands[0]['id']
                return ('closure', cid, tuple(ops))
            return ('unk', 'aggr')
        if k == 'discr':
            v = self.read_res(st, self.resolve(st, frame, rv['place']))
            if rv.get('pty') and v is not None and v[0] != 'adt':
                self.discr_types[freeze(st, v)] = rv['pty']
            return ('discr', v)
        if k == 'binop':
            a = self.operand(st, frame, rv['a'])
            b = self.operand(st, frame, rv['b'])
            return self.binop(st, rv['op'], a, b)
        if k == 'unop':
            a = self.operand(st, frame, rv['a'])
            if rv['op'] == 'Not':
                if a[0] == 'int' and a[1] in (0, 1):
                    return Int(1 - a[1])
                if a[0] == 'app' and a[1] == 'Not':
                    return a[2][0]
                return App('Not', a)
            if rv['op'] == 'PtrMetadata':
                return self.len_of(st, a)
            return App(rv['op'], a)
        if k == 'cast':
            a = self.operand(st, frame, rv['op'])
            kind = rv['kind']
            if 'Pointer' in kind or kind in ('PtrToPtr', 'Transmute'):
                return a
            if a[0] == 'int':
                # narrowing of a literal: keep the value (wrap to target width)
                bits = {'u8': 8, 'u16': 16, 'u32': 32, 'u64': 64, 'usize': 64, 'i32': 32, 'isize': 64, 'i64': 64}.get(rv['to'])
                if bits and rv['to'].startswith('u'):
                    return Int(a[1] % (1 << bits))
                return a
            return App('cast', a, Sym(rv['from'] + '->' + rv['to']))
        if k == 'repeat':
            v = self.operand(st, frame, rv['op'])
            n = ty_bytes_len(dest_ty) if dest_ty else None
            if v == Int(0) and n is not None:
                return ('zero', n)
            return App('repeat', v, Sym(rv.get('n', '?')))
        return ('unk', 'rv:' + k)

    def len_of(self, st, a):
        v = deref_val(st, a)
        l = tlen(v)
        if l is not None:
            return Int(l)
        if v is not None and v[0] in ('array', 'list', 'tuple'):
            return Int(len(v[1]))
        return App('len', freeze(st, v))

    def binop(self, st, op, a, b):
        base = op.replace('WithOverflow', '').replace('Unchecked', '')
        if a[0] == 'int' and b[0] == 'int':
            x, y = a[1], b[1]
            r = {'Add': x + y, 'Sub': x - y, 'Mul': x * y, 'Eq': int(x == y), 'Ne': int(x != y),
                 'Lt': int(x < y), 'Le': int(x <= y), 'Gt': int(x > y), 'Ge': int(x >= y),
                 'BitAnd': x & y, 'BitOr': x | y, 'BitXor': x ^ y,
                 'Div': (x // y if y else None), 'Rem': (x % y if y else None),
                 'Shl': x << y if 0 <= y < 128 else None, 'Shr': x >> y if 0 <= y < 128 else None}.get(base)
            if r is not None:
                if 'WithOverflow' in op:
                    ovf = int(r < 0 or r >= (1 << 64))
                    return ('tuple', (Int(r), Int(ovf)))
                return Int(r)
        a = freeze(st, a)
        b = freeze(st, b)
        def _dv(x):
            if x[0] == 'discr':
                return x[1]
            if x[0] == 'app' and x[1] in ('discr', 'discriminant_value', 'core::intrinsics::discriminant_value') and len(x[2]) == 1:
                return x[2][0]
            return None
        if base in ('Eq', 'Ne') and _dv(a) is not None and _dv(b) is not None:
            # discriminants of two values whose variants are known (e.g. a constructed error against a constant of the same enum)
            va, vb = _dv(a), _dv(b)
            if va is not None and vb is not None and va[0] == 'adt' and vb[0] == 'adt' and va[1] == vb[1]:
                same = va[2] == vb[2]
                return Int(int(same if base == 'Eq' else not same))
        if base == 'BitXor':
            import models
            ua = a[1] if a[0] == 'biter' else a
            ub = b[1] if b[0] == 'biter' else b
            return models.mk_xor(ua, ub)
        if 'WithOverflow' in op:
            return ('tuple', (App(base, a, b), App('ovf', App(base, a, b))))
        return App(base, a, b)

    # ---- execution ---------------------------------------------------------------------------------
    def run(self, body_id, args, st, depth=0):
        body = self.suite.bodies[body_id]
        frame = {'locals': [st.alloc(None) for _ in body['locals']], 'body': body}
        for i, a in enumerate(args):
            if i + 1 < len(frame['locals']):
                st.cells[frame['locals'][i + 1]] = a
        yield from self.exec_bb(frame, 0, st, depth, {})

    def exec_bb(self, frame, bbi, st, depth, visits):
        body = frame['body']
        while True:
            visits = dict(visits)
            visits[bbi] = visits.get(bbi, 0) + 1
            if visits[bbi] > self.loop_cap:
                st.ev('LOOP-CAP', body['generic_path'], bbi)
                self.notes.append('loop cap in ' + body['generic_path'])
                return
            bb = body['blocks'][bbi]
            self.blocks += 1
            if self.blocks > self.block_cap or (self.blocks % 4096 == 0 and __import__('time').time() > self.deadline):
                raise Stop('exploration budget exceeded (%d blocks) in %s' % (self.blocks, body['generic_path']))
            for s in bb['stmts']:
                if s['k'] == 'assign':
                    dty = body['locals'][s['place']['l']]['ty'] if not s['place']['p'] else None
                    v = self.rvalue(st, frame, s['rv'], dty)
                    if dty and v is not None and v[0] in ('app', 'fld', 'sym', 'cat'):
                        n = ty_bytes_len(dty)
                        if n is not None and not dty.startswith('&'):
                            terms.note_len(v, n)
                    self.write_res(st, self.resolve(st, frame, s['place']), v)
                elif s['k'] == 'setdiscr':
                    pass
            t = bb['term']
            k = t['k']
            if k in ('goto', 'drop'):
                bbi = t['t']
                continue
            if k == 'assert':
                c = self.operand(st, frame, t['cond'])
                st.ev('assert', body['generic_path'], t.get('msg', '')[:40], freeze(st, c), 1 if t.get('expected') else 0, t.get('span', ''))
                bbi = t['t']
                continue
            if k == 'return':
                yield st, freeze(st, st.cells[frame['locals'][0]])
                return
            if k in ('unreachable', 'resume', 'terminate'):
                return
            if k == 'switch':
                d = self.operand(st, frame, t['discr'])
                d = self.concretize(st, d)
                if d[0] == 'int':
                    tgt = t['otherwise']
                    for v, b in t['arms']:
                        if int(v) == d[1]:
                            tgt = b
                    bbi = tgt
                    continue
                arms = [(int(v), b) for v, b in t['arms']] + [(None, t['otherwise'])]
                live = []
                dead = self.uninhabited_variants(d)
                for v, b in arms:
                    tb = body['blocks'][b]
                    if tb['term']['k'] == 'unreachable' and not tb['stmts']:
                        continue
                    if v is not None and v in dead:
                        st.ev('uninhabited-arm', body['generic_path'], v)
                        continue
                    live.append((v, b))
                for v, b in live:
                    self.paths += 1
                    if self.paths > self.max_paths:
                        raise Stop('path cap (%d) exceeded in %s' % (self.max_paths, body['generic_path']))
                    s2 = st.copy() if len(live) > 1 else st
                    self.assume_discr(s2, d, v, [x for x, _ in arms if x is not None], t.get('dty'))
                    yield from self.exec_bb(frame, b, s2, depth, visits)
                return
            if k == 'call':
                argv = [self.operand(st, frame, a) for a in t['args']]
                t = dict(t)
                t['_argtys'] = [(body['locals'][a['place']['l']]['ty'] if (a.get('k') in ('copy', 'move') and not a['place']['p']) else None) for a in t['args']]
                dest = t['dest']
                tgt = t['t']
                dty = body['locals'][dest['l']]['ty'] if not dest['p'] else None
                for s2, ret in self.call(st, t, argv, depth, dty):
                    if tgt is None:
                        s2.ev('diverge', callee_key(t['callee']), t.get('span', ''))
                        self.diverged.append(s2)
                        continue
                    if dty and ret is not None and ret[0] in ('app', 'fld', 'sym', 'cat'):
                        n = ty_bytes_len(dty)
                        if n is not None and not dty.startswith('&'):
                            terms.note_len(ret, n)
                    self.write_res(s2, self.resolve(s2, frame, dest), ret)
                    yield from self.exec_bb(frame, tgt, s2, depth, visits)
                return
            st.ev('UNHANDLED-TERM', k)
            return

    def uninhabited_variants(self, d):
        """variant indices of the scrutinee's type that carry a field of an uninhabited type (Infallible / !):
        no value of such a variant exists, so the arm is unreachable by typing (DESIGN C12 R12.3)"""
        if d[0] != 'discr':
            return ()
        ty = self.discr_types.get(d[1])
        if not ty:
            return ()
        t = self.suite.types.get(ty)
        if not t:
            return ()
        out = []
        for i, v in enumerate(t['variants']):
            if any(f['ty'] in ('std::convert::Infallible', '!', 'core::convert::Infallible') for f in v['fields']):
                out.append(i)
        return out

    def concretize(self, st, d):
        if d[0] == 'discr':
            v = d[1]
            if v is not None and v[0] == 'adt':
                if v[1] == 'core::cmp::Ordering':
                    # discriminants -1 / 0 / 1; a switch on it compares the i8 bit pattern
                    return Int({'Less': 255, 'Equal': 0, 'Greater': 1}[v[2]])
                return Int(self.variant_index(v))
            if v in st.assume:
                return Int(st.assume[v])
            return d
        if d[0] == 'int':
            return d
        if d in st.assume:
            return Int(st.assume[d])
        if d[0] == 'app' and d[1] == 'Not' and d[2][0] in st.assume:
            return Int(1 - st.assume[d[2][0]])
        return d

    def variant_index(self, v):
        a = self.adts.get(v[1])
        if a:
            for i, name in enumerate(a):
                if name == v[2]:
                    return i
        if v[2] in VARIANT_IDX:
            return VARIANT_IDX[v[2]]
        raise Stop('unknown variant index for %s::%s' % (v[1], v[2]))

    def _outcome_name(self, key, val):
        """for an opaque Result/Option inspected by an explicit `match`: the same 'outcome' event that `?` / combinators record"""
        ty = self.discr_types.get(key) or ''
        if ty.startswith('std::result::Result<') or ty.startswith('core::result::Result<'):
            return {0: 'Ok', 1: 'Err'}.get(val)
        if ty.startswith('std::option::Option<') or ty.startswith('core::option::Option<'):
            return {0: 'None', 1: 'Some'}.get(val)
        return None

    def assume_discr(self, st, d, v, others, dty):
        key = d[1] if d[0] == 'discr' else d
        if d[0] == 'discr' and key is not None and key[0] in ('app',) and key not in st.assume:
            val = v if v is not None else ((1 - others[0]) if (len(others) == 1 and others[0] in (0, 1)) else None)
            nm = self._outcome_name(key, val) if val is not None else None
            if nm:
                st.assume[key] = val
                st.ev('outcome', key, nm)
                return
        neg = False
        if d[0] == 'app' and d[1] == 'Not':
            key = d[2][0]
            neg = True
        if v is None:
            if dty == 'bool' or len(others) == 1 and others[0] in (0, 1):
                val = 1 - others[0]
                if neg:
                    val = 1 - val
                st.assume[key] = val
                st.ev('assume', key, val)
            else:
                st.assume[key] = -1
                st.ev('assume', key, ('not', tuple(others)))
        else:
            val = (1 - v) if (neg and v in (0, 1)) else v
            st.assume[key] = val
            st.ev('assume', key, val)

    # ---- calls -------------------------------------------------------------------------------------
    def call(self, st, t, argv, depth, dty):
        callee = t['callee']
        res = t.get('res') or {}
        if 'path' not in callee:
            st.ev('indirect-call', t.get('span', ''))
            yield st, App('indirect', *[freeze(st, a) for a in argv])
            return
        key = callee_key(callee)
        import models
        m = models.MODELS.get(key)
        if m is None and key.startswith('std::'):
            # the same item printed through std's re-export (which of the two paths the compiler prints depends on the calling crate's imports)
            for pre in ('core::', 'alloc::'):
                if pre + key[5:] in models.MODELS:
                    key = pre + key[5:]
                    m = models.MODELS[key]
                    break
        rid = res.get('id')
        if m is not None and callee.get('trait_dpath') and key not in SHADOW_OK and rid in self.suite.bodies \
                and self.suite.bodies[rid]['crate'] == 'opaque_ke' and depth < self.depth_cap:
            # a model describes the *contract* of a std/dependency trait method; an impl of that trait written in the analysed crate is
            # code under analysis and is interpreted as a body (Clone/Default/From impls of the crate are covered by L-CLONE, L-PARAMS and
            # the From model, which runs the crate's impl)
            m = None
        if m is not None:
            yield from m(self, st, callee, argv, depth, t, dty)
            return
        rtrait = res.get('trait_dpath') or callee.get('trait_dpath')
        # i2osp recognised by shape
        if rid in self.suite.i2osp_ids():
            yield from models.m_i2osp(self, st, callee, argv, depth, t, dty, self.suite.i2osp_ids()[rid])
            return
        if rtrait in (KEGROUP, KSF, VGROUP) or (rtrait == SECRETKEY and res.get('crate') != 'opaque_ke'):
            if not (self.inline_kegroup and rtrait == KEGROUP):
                yield from models.trait_call(self, st, rtrait, callee, argv, depth, t, dty)
                return
        if rid is None and getattr(self.suite, 'by_path', None) is not None and callee.get('local') and not callee.get('trait_dpath'):
            c = self.suite.by_path.get(callee['path'], [])
            if len(c) == 1 and depth < self.depth_cap:
                yield from self.run(c[0]['id'], argv, st, depth + 1)
                return
        if rid in self.suite.bodies:
            b = self.suite.bodies[rid]
            if b['crate'] in ('opaque_ke', 'suites', 'fixtures') and depth < self.depth_cap:
                yield from self.run(rid, argv, st, depth + 1)
                return
            if b['crate'] == 'voprf':
                yield from models.uninterp(self, st, 'voprf:' + key, argv, t, dty)
                return
        self.unmodelled[key] = self.unmodelled.get(key, 0) + 1
        yield from models.uninterp(self, st, key, argv, t, dty)

    def apply_callable(self, st, f, args, depth, t=None, dty=None):
        if f is None:
            yield st, App('apply', ('unk', 'nofn'), *args)
            return
        if f[0] == 'closure':
            if f[1] in self.suite.bodies:
                yield from self.run(f[1], [f] + list(args), st, depth + 1)
                return
            yield st, App('apply-closure', Int(f[1] or -1), *[freeze(st, a) for a in args])
            return
        if f[0] == 'fnitem':
            c = self.fnitems[f[1]]
            fake = {'callee': c['fn'], 'res': c.get('res'), 'span': (t or {}).get('span', '')}
            # tuple-struct / enum-variant constructors used as functions
            fn = c['fn']
            dp = fn.get('dpath', '')
            if '{{constructor}}' in dp or dp.endswith('::{constructor#0}'):
                adt = dp.rsplit('::', 1)[0]
                val = self.construct(adt, fn, args)
                st.ev('construct-fn', adt, freeze(st, val))
                yield st, val
                return
            yield from self.call(st, fake, list(args), depth, dty)
            return
        yield st, App('apply', f, *[freeze(st, a) for a in args])

    def construct(self, adt_dpath, fn, args):
        # `PublicKey` (struct ctor) or `Some`/`Ok`/`ProtocolError::LibraryError` (variant ctor)
        name = adt_dpath.rsplit('::', 1)[-1]
        parent = adt_dpath.rsplit('::', 1)[0]
        if name in ('Some', 'Ok', 'Err'):
            return mk({'Some': OPTION, 'Ok': RESULT, 'Err': RESULT}[name], name, args[0])
        if parent in self.adts and name in self.adts[parent]:
            return Adt(parent, name, [(str(i), a) for i, a in enumerate(args)])
        return Adt(adt_dpath, name, [(str(i), a) for i, a in enumerate(args)])

    # ---- fallible values ----------------------------------------------------------------------------
    def fork_result(self, st, v, ok='Ok', err='Err'):
        """yield (state, variantname, payload) for a possibly-opaque fallible value"""
        rv = res_variant(v)
        if rv:
            yield st, rv[0], rv[1]
            return
        v = freeze(st, v)
        if v in st.assume:
            a = st.assume[v]
            name = ok if a == 0 else err
            if ok == 'Some':
                name = 'Some' if a == 1 else 'None'
            yield st, name, ('fld', ('as', v, name), '0')
            return
        for name in (ok, err):
            self.paths += 1
            if self.paths > self.max_paths:
                raise Stop('path cap exceeded')
            s2 = st.copy()
            s2.assume[v] = VARIANT_IDX[name]
            s2.ev('outcome', v, name)
            yield s2, name, ('fld', ('as', v, name), '0')


def summarize(suite, body, params, **kw):
    """interpret one function with symbolic parameters; returns (interp, [(state, retval)])"""
    I = Interp(suite, **kw)
    st = State()
    outs = []
    terms.use_suite(suite.name)
    declared = []
    for prm, loc in zip(params, body['locals'][1:]):
        n = ty_bytes_len(loc['ty'])
        if n is not None and prm is not None and prm[0] == 'sym':
            terms.LEN[prm] = n
            declared.append(prm)
    try:
        for s, r in I.run(body['id'], params, st):
            outs.append((s, r))
    except Stop as e:
        I.notes.append('STOP: %s' % e)
    for prm in declared:
        terms.LEN.pop(prm, None)
    return I, outs
