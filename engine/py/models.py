"""Model table: what the interpreter believes about external functions (DESIGN 3.5).
Keys are `trait_dpath::method`, `adt_dpath::method` or the generic-stripped path of a free fn."""
import re

from terms import *  # noqa
import terms
from interp import (deref_val, freeze, res_variant, KEGROUP, KSF, SECRETKEY, VGROUP, callee_key, Stop)

MODELS = {}


def model(*keys):
    def deco(f):
        for k in keys:
            MODELS[k] = f
        return f
    return deco


def span(t):
    return (t or {}).get('span', '')


def is_result_ty(ty):
    return bool(ty) and (ty.startswith('std::result::Result<') or ty.startswith('core::result::Result<'))


def is_option_ty(ty):
    return bool(ty) and (ty.startswith('std::option::Option<') or ty.startswith('subtle::CtOption<'))


def bytes_of(st, v):
    """byte content of a value (derefs, arrays of ints -> literal)"""
    v = freeze(st, deref_val(st, v))
    return norm_bytes(v)


def norm_bytes(v):
    if v is not None and v[0] == 'array' and all(x[0] == 'int' for x in v[1]):
        return Bytes(bytes(x[1] & 0xff for x in v[1]))
    if v is not None and v[0] == 'biter':
        return v[1]
    return v


# ---- generic helpers -------------------------------------------------------------------------------
def uninterp(I, st, key, argv, t, dty, record=True):
    fa = tuple(freeze(st, a) for a in argv)
    term = App(key, *fa)
    # `&mut` arguments of functions the interpreter does not understand are havocked: whatever was known about the
    # referenced storage is replaced by an opaque "output of that call", so no later obligation can be discharged from stale knowledge
    tys = (t or {}).get('_argtys') or []
    for i, a in enumerate(argv):
        if a is not None and a[0] == 'ref' and i < len(tys) and tys[i] and tys[i].startswith('&mut '):
            I.write_res(st, ('cell', a[1], a[2]), App(key + '#out%d' % i, *fa))
            st.ev('havoc', key, i, span(t))
    if record:
        st.ev('call', key, fa, span(t))
    yield st, term


def trait_call(I, st, trait, callee, argv, depth, t, dty):
    """calls on the traits that are the points of genericity stay uninterpreted (DESIGN 2.2)"""
    name = callee['name']
    short = {KEGROUP: 'KeGroup', KSF: 'Ksf', SECRETKEY: 'SecretKey', VGROUP: 'Group'}[trait]
    key = '%s::%s' % (short, name)
    fa = tuple(freeze(st, a) for a in argv)
    if trait == SECRETKEY:
        # an externally held key is not a pure function: the n-th request may fail when the (n-1)-th did not (C18 quantifies over
        # such fault sequences).  A repeated identical request on one path is therefore a *different* call with its own outcome.
        n = sum(1 for e in st.events if e[0] == 'call' and e[1].split('#')[0] == key and e[2] == fa)
        if n:
            key = '%s#%d' % (key, n + 1)
    if I.honest and key == 'KeGroup::deserialize_pk' and fa[0][0] == 'app' and fa[0][1] == 'KeGroup::serialize_pk':
        st.ev('call', key, fa, span(t))
        yield st, Ok(fa[0][2][0])
        return
    if I.honest and key == 'KeGroup::deserialize_sk' and fa[0][0] == 'app' and fa[0][1] == 'KeGroup::serialize_sk':
        st.ev('call', key, fa, span(t))
        yield st, Ok(fa[0][2][0])
        return
    if I.honest and key == 'SecretKey::deserialize' and fa[0][0] == 'app' and fa[0][1] == 'SecretKey::serialize':
        # the external key's own codec round-trips (what "the same key" means for a key that lives elsewhere; DESIGN 3.2-7c)
        st.ev('call', key, fa, span(t))
        yield st, Ok(fa[0][2][0])
        return
    if I.honest and key == 'KeGroup::diffie_hellman' and fa[0][0] == 'app' and fa[0][1] == 'KeGroup::public_key':
        # DESIGN 3.2-7a: DH(sk_a, PK(sk_b)) = DH(sk_b, PK(sk_a)) (assumed group law; the pair is sorted)
        st.ev('call', key, fa, span(t))
        yield st, App('DH', *sorted([fa[1], fa[0][2][0]], key=repr))
        return
    st.ev('call', key, fa, span(t))
    yield st, App(key, *fa)


@model('zeroize::Zeroize::zeroize')
def m_zeroize(I, st, callee, argv, depth, t, dty):
    a = argv[0]
    if a is not None and a[0] == 'ref':
        old = freeze(st, deref_val(st, a))
        n = tlen(old)
        I.write_res(st, ('cell', a[1], a[2]), ('zero', n) if n is not None else App('Zeroized', Sym((callee.get('self_ty') or '?')[:60])))
        st.ev('zeroize', span(t))
    yield st, UNIT


# ---- identities ----------------------------------------------------------------------------------------
@model('core::clone::Clone::clone')
def m_clone(I, st, callee, argv, depth, t, dty):
    yield st, freeze(st, deref_val(st, argv[0]))


@model('core::ops::deref::Deref::deref', 'core::ops::deref::DerefMut::deref_mut', 'generic_array::GenericArray::as_slice',
       'core::convert::AsRef::as_ref', 'core::borrow::Borrow::borrow', 'digest::mac::CtOutput::into_bytes',
       'core::array::as_slice', 'core::str::as_bytes', 'generic_array::GenericArray::as_mut_slice',
       'core::convert::AsMut::as_mut', 'core::borrow::BorrowMut::borrow_mut', 'core::slice::as_ref')
def m_ident(I, st, callee, argv, depth, t, dty):
    yield st, argv[0]


def find_from_impl(I, to_ty, from_ty):
    wants = ('<%s as std::convert::From<%s>>::from' % (to_ty, from_ty), '<%s as core::convert::From<%s>>::from' % (to_ty, from_ty))
    for b in I.suite.bodies.values():
        if b.get('name') == 'from' and b['path'] in wants:
            return b
    return None


def convert(I, st, v, from_ty, to_ty, depth, t=None):
    """U::from(v: T) — crate-local From impls are inlined, byte containers are identities"""
    if from_ty == to_ty:
        yield st, v
        return
    m = re.fullmatch(r"&(?:'\w+ )?(?:mut )?generic_array::GenericArray<u8, U(\d+)>", to_ty)
    if m and re.match(r"&(?:'\w+ )?(?:mut )?\[u8\]", from_ty):
        # generic-array 0.14: `impl From<&[T]> for &GenericArray<T, N>` asserts `slice.len() == N` (a panic site inside the dependency)
        st.ev('exact-len', I.len_of(st, v), Int(int(m.group(1))), 'From<&[u8]> for &GenericArray', span(t) if t else '')
        yield st, v
        return
    b = find_from_impl(I, to_ty, from_ty)
    if b is not None and (b.get('crate') in ('opaque_ke', 'suites', 'fixtures') or getattr(I.suite, 'name', '') == 'generic'):
        yield from I.run(b['id'], [v], st, depth + 1)
        return
    if to_ty == 'bool' and 'Choice' in from_ty:
        yield st, v
        return
    if (to_ty.startswith('std::option::Option<') and from_ty.startswith('subtle::CtOption<')):
        yield st, v
        return
    if ty_bytes_len(to_ty) is not None or ty_bytes_len(from_ty) is not None or from_ty.startswith('&[u8') \
            or to_ty.startswith('generic_array::GenericArray<u8'):
        yield st, v
        return
    if re.fullmatch(r'[ui](8|16|32|64|128|size)', to_ty) and re.fullmatch(r'[ui](8|16|32|64|128|size)', from_ty):
        yield st, v
        return
    yield st, App('From', v, Sym(strip_generics(from_ty).split('::')[-1] + '->' + strip_generics(to_ty).split('::')[-1]))


@model('core::convert::Into::into')
def m_into(I, st, callee, argv, depth, t, dty):
    args = callee.get('args', [])
    if len(args) >= 2:
        yield from convert(I, st, norm_keep(argv[0]), args[0], args[1], depth, t)
    else:
        yield st, argv[0]


@model('core::convert::From::from')
def m_from(I, st, callee, argv, depth, t, dty):
    args = callee.get('args', [])
    if len(args) >= 2:
        yield from convert(I, st, norm_keep(argv[0]), args[1], args[0], depth, t)
    else:
        yield st, argv[0]


def norm_keep(v):
    return norm_bytes(v) if (v is not None and v[0] == 'array') else v


@model('core::convert::TryInto::try_into', 'core::convert::TryFrom::try_from')
def m_try_into(I, st, callee, argv, depth, t, dty):
    args = callee.get('args', [])
    if callee['name'] == 'try_into':
        from_ty, to_ty = (args + ['', ''])[:2]
    else:
        to_ty, from_ty = (args + ['', ''])[:2]
    v = argv[0]
    n = ty_bytes_len(to_ty)
    if n is not None:
        # slice -> array: Ok iff len == n
        c = bytes_of(st, v)
        l = tlen(c)
        if l is not None:
            yield st, (Ok(c) if l == n else Err(App('TryFromSliceError')))
            return
        test = App('try_into_array', c, Int(n))
        for s2, name, payload in I.fork_result(st, test):
            yield s2, (Ok(c) if name == 'Ok' else Err(App('TryFromSliceError')))
        return
    m = re.fullmatch(r'u(8|16|32)', to_ty)
    if m and from_ty in ('usize', 'u64', 'u32', 'u16'):
        lim = 1 << int(m.group(1))
        v = freeze(st, v)
        if v[0] == 'int':
            yield st, (Ok(v) if v[1] < lim else Err(App('TryFromIntError')))
            return
        test = App('try_into_int', v, Int(lim - 1))
        for s2, name, payload in I.fork_result(st, test):
            yield s2, (Ok(App('narrow', v, Int(lim - 1))) if name == 'Ok' else Err(App('TryFromIntError')))
        return
    I.unmodelled['try_from:%s->%s' % (from_ty, to_ty)] = 1
    yield from uninterp(I, st, 'try_from', argv, t, dty)


@model('core::default::Default::default')
def m_default(I, st, callee, argv, depth, t, dty):
    ty = callee.get('self_ty', '') or (callee.get('args') or [''])[0]
    n = ty_bytes_len(ty)
    if n is not None:
        yield st, ('zero', n)
        return
    # crate-local Default impls (derive_where on parameter structs) are inlined
    rid = (t.get('res') or {}).get('id')
    if rid in I.suite.bodies and I.suite.bodies[rid]['crate'] in ('opaque_ke',):
        yield from I.run(rid, [], st, depth + 1)
        return
    yield st, App('Default', Sym(ty))


# ---- Result / Option ---------------------------------------------------------------------------------
def _err_types(callee):
    args = callee.get('args', [])
    return args


@model('core::ops::try_trait::Try::branch')
def m_branch(I, st, callee, argv, depth, t, dty):
    sty = callee.get('self_ty', '') or (callee.get('args') or [''])[0]
    is_opt = sty.startswith('std::option::Option')
    ok, err = ('Some', 'None') if is_opt else ('Ok', 'Err')
    for s2, name, payload in I.fork_result(st, argv[0], ok, err):
        if name == ok:
            yield s2, mk(CF, 'Continue', payload)
        else:
            yield s2, mk(CF, 'Break', NONE if is_opt else Err(payload))


def result_err_ty(ty):
    head, args = split_generic_args(ty)
    return args[1] if len(args) > 1 else ''


@model('core::ops::try_trait::FromResidual::from_residual')
def m_from_residual(I, st, callee, argv, depth, t, dty):
    v = argv[0]
    rv = res_variant(v)
    if rv and rv[0] == 'Err':
        args = callee.get('args', [])
        te = result_err_ty(args[0]) if args else ''
        fe = result_err_ty(args[1]) if len(args) > 1 else ''
        for s2, e in convert(I, st, rv[1], fe, te, depth):
            yield s2, Err(e)
        return
    if rv and rv[0] == 'None':
        yield st, NONE
        return
    yield st, App('from_residual', freeze(st, v))


@model('core::result::Result::map_err')
def m_map_err(I, st, callee, argv, depth, t, dty):
    for s2, name, payload in I.fork_result(st, argv[0]):
        if name == 'Ok':
            yield s2, Ok(payload)
        else:
            for s3, e in I.apply_callable(s2, argv[1], [payload], depth, t):
                yield s3, Err(e)


@model('core::result::Result::map')
def m_map(I, st, callee, argv, depth, t, dty):
    for s2, name, payload in I.fork_result(st, argv[0]):
        if name == 'Err':
            yield s2, Err(payload)
        else:
            for s3, e in I.apply_callable(s2, argv[1], [payload], depth, t):
                yield s3, Ok(e)


@model('core::result::Result::and_then')
def m_res_and_then(I, st, callee, argv, depth, t, dty):
    for s2, name, payload in I.fork_result(st, argv[0]):
        if name == 'Err':
            yield s2, Err(payload)
        else:
            yield from I.apply_callable(s2, argv[1], [payload], depth, t)


@model('core::result::Result::ok')
def m_ok(I, st, callee, argv, depth, t, dty):
    for s2, name, payload in I.fork_result(st, argv[0]):
        yield s2, (Some(payload) if name == 'Ok' else NONE)


@model('core::result::Result::is_ok', 'core::result::Result::is_err')
def m_is_ok(I, st, callee, argv, depth, t, dty):
    want = 'Ok' if callee['name'] == 'is_ok' else 'Err'
    for s2, name, payload in I.fork_result(st, deref_val(st, argv[0])):
        yield s2, Int(1 if name == want else 0)


@model('core::result::Result::unwrap', 'core::result::Result::expect', 'core::option::Option::unwrap',
       'core::option::Option::expect')
def m_unwrap(I, st, callee, argv, depth, t, dty):
    is_opt = 'option' in callee_key(callee)
    ok, err = ('Some', 'None') if is_opt else ('Ok', 'Err')
    for s2, name, payload in I.fork_result(st, argv[0], ok, err):
        if name == ok:
            s2.ev('unwrap', freeze(s2, argv[0]), span(t))
            yield s2, payload
        else:
            s2.ev('panic', 'unwrap', span(t))
            I.diverged.append(s2)
            # path ends (panic)


@model('core::result::Result::unwrap_or', 'core::option::Option::unwrap_or')
def m_unwrap_or(I, st, callee, argv, depth, t, dty):
    is_opt = 'option' in callee_key(callee)
    ok, err = ('Some', 'None') if is_opt else ('Ok', 'Err')
    for s2, name, payload in I.fork_result(st, argv[0], ok, err):
        yield s2, (payload if name == ok else argv[1])


@model('core::option::Option::unwrap_or_default', 'core::result::Result::unwrap_or_default')
def m_unwrap_or_default(I, st, callee, argv, depth, t, dty):
    is_opt = 'option' in callee_key(callee)
    ok, err = ('Some', 'None') if is_opt else ('Ok', 'Err')
    for s2, name, payload in I.fork_result(st, argv[0], ok, err):
        if name == ok:
            yield s2, payload
        else:
            n = ty_bytes_len(dty)
            yield s2, (('zero', n) if n is not None else (Bytes(b'') if (dty or '').startswith('&[u8') else App('Default', Sym(dty or '?'))))


@model('core::option::Option::map_or')
def m_opt_map_or(I, st, callee, argv, depth, t, dty):
    for s2, name, payload in I.fork_result(st, argv[0], 'Some', 'None'):
        if name == 'None':
            yield s2, argv[1]
        else:
            yield from I.apply_callable(s2, argv[2], [payload], depth, t)


@model('core::option::Option::map_or_else')
def m_opt_map_or_else(I, st, callee, argv, depth, t, dty):
    for s2, name, payload in I.fork_result(st, argv[0], 'Some', 'None'):
        if name == 'None':
            yield from I.apply_callable(s2, argv[1], [], depth, t)
        else:
            yield from I.apply_callable(s2, argv[2], [payload], depth, t)


@model('core::result::Result::map_or_else')
def m_res_map_or_else(I, st, callee, argv, depth, t, dty):
    for s2, name, payload in I.fork_result(st, argv[0]):
        if name == 'Err':
            yield from I.apply_callable(s2, argv[1], [payload], depth, t)
        else:
            yield from I.apply_callable(s2, argv[2], [payload], depth, t)


@model('core::result::Result::map_or')
def m_res_map_or(I, st, callee, argv, depth, t, dty):
    for s2, name, payload in I.fork_result(st, argv[0]):
        if name == 'Err':
            yield s2, argv[1]
        else:
            yield from I.apply_callable(s2, argv[2], [payload], depth, t)


@model('core::result::Result::or_else')
def m_res_or_else(I, st, callee, argv, depth, t, dty):
    for s2, name, payload in I.fork_result(st, argv[0]):
        if name == 'Ok':
            yield s2, Ok(payload)
        else:
            yield from I.apply_callable(s2, argv[1], [payload], depth, t)


@model('core::option::Option::ok_or_else')
def m_ok_or_else2(I, st, callee, argv, depth, t, dty):
    for s2, name, payload in I.fork_result(st, argv[0], 'Some', 'None'):
        if name == 'Some':
            yield s2, Ok(payload)
        else:
            for s3, e in I.apply_callable(s2, argv[1], [], depth, t):
                yield s3, Err(e)


@model('core::iter::traits::iterator::Iterator::fold')
def m_fold(I, st, callee, argv, depth, t, dty):
    items = as_list(st, argv[0])
    if items is None and is_steppable(st, argv[0]):
        def go(s, it, acc):
            for s2, nit, item in iter_step(I, s, it, depth, t):
                if item is None:
                    yield s2, acc
                    continue
                for s3, acc2 in I.apply_callable(s2, argv[2], [acc, item], depth, t):
                    yield from go(s3, nit, acc2)
        yield from go(st, deref_val(st, argv[0]), argv[1])
        return
    if items is None:
        st.ev('LOOPSUM', 'fold over an opaque iterator', span(t))
        I.notes.append('opaque fold at ' + span(t))
        yield st, App('fold', freeze(st, argv[0]), freeze(st, argv[1]))
        return
    def step(s, acc, rest):
        if not rest:
            yield s, acc
            return
        for s2, acc2 in I.apply_callable(s, argv[2], [acc, rest[0]], depth, t):
            yield from step(s2, acc2, rest[1:])
    yield from step(st, argv[1], items)


@model('core::iter::traits::iterator::Iterator::for_each')
def m_for_each(I, st, callee, argv, depth, t, dty):
    items = as_list(st, argv[0])
    if items is None and is_steppable(st, argv[0]):
        def go(s, it):
            for s2, nit, item in iter_step(I, s, it, depth, t):
                if item is None:
                    yield s2, UNIT
                    continue
                for s3, _ in I.apply_callable(s2, argv[1], [item], depth, t):
                    yield from go(s3, nit)
        yield from go(st, deref_val(st, argv[0]))
        return
    if items is None:
        st.ev('LOOPSUM', 'for_each over an opaque iterator', span(t))
        I.notes.append('opaque for_each at ' + span(t))
        yield st, UNIT
        return
    def step(s, rest):
        if not rest:
            yield s, UNIT
            return
        for s2, _ in I.apply_callable(s, argv[1], [rest[0]], depth, t):
            yield from step(s2, rest[1:])
    yield from step(st, items)


@model('core::option::Option::map')
def m_opt_map(I, st, callee, argv, depth, t, dty):
    for s2, name, payload in I.fork_result(st, argv[0], 'Some', 'None'):
        if name == 'None':
            yield s2, NONE
        else:
            for s3, e in I.apply_callable(s2, argv[1], [payload], depth, t):
                yield s3, Some(e)


@model('core::option::Option::and_then')
def m_and_then(I, st, callee, argv, depth, t, dty):
    for s2, name, payload in I.fork_result(st, argv[0], 'Some', 'None'):
        if name == 'None':
            yield s2, NONE
        else:
            yield from I.apply_callable(s2, argv[1], [payload], depth, t)


@model('core::option::Option::ok_or')
def m_ok_or(I, st, callee, argv, depth, t, dty):
    for s2, name, payload in I.fork_result(st, argv[0], 'Some', 'None'):
        yield s2, (Ok(payload) if name == 'Some' else Err(argv[1]))


@model('core::option::Option::ok_or_else')
def m_ok_or_else(I, st, callee, argv, depth, t, dty):
    for s2, name, payload in I.fork_result(st, argv[0], 'Some', 'None'):
        if name == 'Some':
            yield s2, Ok(payload)
        else:
            for s3, e in I.apply_callable(s2, argv[1], [], depth, t):
                yield s3, Err(e)


def fork_bool(I, st, b):
    b = freeze(st, b)
    if b[0] == 'int':
        yield st, bool(b[1])
        return
    neg = False
    key = b
    if b[0] == 'app' and b[1] == 'Not':
        key = b[2][0]
        neg = True
    if key in st.assume:
        val = bool(st.assume[key])
        yield st, (not val if neg else val)
        return
    for val in (1, 0):
        I.paths += 1
        if I.paths > I.max_paths:
            raise Stop('path cap exceeded')
        s2 = st.copy()
        s2.assume[key] = val
        s2.ev('assume', key, val)
        yield s2, (not bool(val) if neg else bool(val))


@model('core::option::Option::filter')
def m_filter(I, st, callee, argv, depth, t, dty):
    for s2, name, payload in I.fork_result(st, argv[0], 'Some', 'None'):
        if name == 'None':
            yield s2, NONE
            continue
        a = s2.alloc(payload)
        for s3, b in I.apply_callable(s2, argv[1], [('ref', a, ())], depth, t):
            for s4, val in fork_bool(I, s3, b):
                yield s4, (Some(payload) if val else NONE)


@model('core::bool::then_some')
def m_then_some(I, st, callee, argv, depth, t, dty):
    for s2, val in fork_bool(I, st, argv[0]):
        yield s2, (Some(argv[1]) if val else NONE)


@model('core::option::Option::is_some', 'core::option::Option::is_none')
def m_is_some(I, st, callee, argv, depth, t, dty):
    want = 'Some' if callee['name'] == 'is_some' else 'None'
    for s2, name, payload in I.fork_result(st, deref_val(st, argv[0]), 'Some', 'None'):
        yield s2, Int(1 if name == want else 0)


@model('core::panicking::panic', 'std::rt::panic_fmt', 'core::panicking::panic_fmt', 'core::panicking::panic_explicit',
       'core::panicking::unreachable_display', 'core::panicking::panic_display')
def m_panic(I, st, callee, argv, depth, t, dty):
    st.ev('panic', callee_key(callee), span(t))
    I.diverged.append(st)
    return
    yield  # pragma: no cover


@model('core::fmt::Arguments::from_str_nonconst', 'core::fmt::Arguments::new_const', 'core::fmt::Arguments::new_v1',
       'core::fmt::Arguments::from_str')
def m_fmtargs(I, st, callee, argv, depth, t, dty):
    yield st, ('unk', 'fmt')


# ---- comparisons -----------------------------------------------------------------------------------------
@model('core::cmp::PartialEq::eq')
def m_eq(I, st, callee, argv, depth, t, dty):
    a, b = bytes_of(st, argv[0]), bytes_of(st, argv[1])
    if a == b:
        yield st, Int(1)
        return
    yield st, App('eq', *sorted([a, b], key=repr))


@model('core::cmp::PartialEq::ne')
def m_ne(I, st, callee, argv, depth, t, dty):
    a, b = bytes_of(st, argv[0]), bytes_of(st, argv[1])
    if a == b:
        yield st, Int(0)
        return
    yield st, App('Not', App('eq', *sorted([a, b], key=repr)))


@model('subtle::ConstantTimeEq::ct_eq')
def m_cteq(I, st, callee, argv, depth, t, dty):
    a, b = bytes_of(st, argv[0]), bytes_of(st, argv[1])
    yield st, App('ct_eq', *sorted([a, b], key=repr))


@model('subtle::ConstantTimeEq::ct_ne')
def m_ctne(I, st, callee, argv, depth, t, dty):
    a, b = bytes_of(st, argv[0]), bytes_of(st, argv[1])
    yield st, App('Not', App('ct_eq', *sorted([a, b], key=repr)))


@model('core::ops::bit::Not::not')
def m_not(I, st, callee, argv, depth, t, dty):
    a = freeze(st, argv[0])
    if a[0] == 'app' and a[1] == 'Not':
        yield st, a[2][0]
    else:
        yield st, App('Not', a)


@model('subtle::Choice::unwrap_u8')
def m_unwrap_u8(I, st, callee, argv, depth, t, dty):
    yield st, freeze(st, deref_val(st, argv[0]))


# ---- slices / arrays ---------------------------------------------------------------------------------------
@model('core::slice::len', 'generic_array::GenericArray::len')
def m_len(I, st, callee, argv, depth, t, dty):
    yield st, I.len_of(st, argv[0])


@model('core::slice::is_empty')
def m_is_empty(I, st, callee, argv, depth, t, dty):
    yield st, I.binop(st, 'Eq', I.len_of(st, argv[0]), Int(0))


@model('core::slice::first')
def m_first(I, st, callee, argv, depth, t, dty):
    c = bytes_of(st, argv[0])
    l = tlen(c)
    if l == 0:
        yield st, NONE
        return
    test = App('nonempty', c)
    if l is not None:
        yield st, Some(App('first', c))
        return
    for s2, name, payload in I.fork_result(st, test, 'Some', 'None'):
        yield s2, (Some(App('first', c)) if name == 'Some' else NONE)


def range_bounds(I, st, base, r):
    """(start, end) terms of a range value applied to `base`"""
    r = freeze(st, r)
    L = I.len_of(st, base)
    if r is not None and r[0] == 'adt':
        nm = r[1].split('::')[-1]
        f = dict(r[3])
        if nm == 'Range':
            return f['start'], f['end']
        if nm == 'RangeTo':
            return Int(0), f['end']
        if nm == 'RangeFrom':
            return f['start'], L
        if nm == 'RangeFull':
            return Int(0), L
        if nm == 'RangeInclusive':
            return f.get('start', ('unk', 'ri')), I.binop(st, 'Add', f.get('end', ('unk', 'ri')), Int(1))
        if nm == 'RangeToInclusive':
            return Int(0), I.binop(st, 'Add', f['end'], Int(1))
    return None


@model('core::ops::index::Index::index', 'core::ops::index::IndexMut::index_mut')
def m_index(I, st, callee, argv, depth, t, dty):
    base = bytes_of(st, argv[0])
    idx = freeze(st, argv[1])
    rb = range_bounds(I, st, argv[0], idx)
    if rb is not None:
        a, b = rb
        st.ev('slice', I.len_of(st, argv[0]), a, b, span(t))
        if callee['name'] == 'index_mut':
            r = argv[0]
            if r is not None and r[0] == 'ref':
                yield st, ('ref', r[1], r[2] + (('s', a, b),))
            else:
                yield st, App('SliceMut', base, a, b)
            return
        yield st, mk_slice(base, a, b)
        return
    st.ev('index', I.len_of(st, argv[0]), idx, span(t))
    raw = deref_val(st, argv[0])
    if raw is not None and raw[0] in ('array', 'list', 'tuple') and idx[0] == 'int' and idx[1] < len(raw[1]):
        yield st, raw[1][idx[1]]
        return
    yield st, App('index', base, idx)


@model('core::slice::split_at')
def m_split_at(I, st, callee, argv, depth, t, dty):
    base = bytes_of(st, argv[0])
    mid = freeze(st, argv[1])
    L = I.len_of(st, argv[0])
    st.ev('slice', L, mid, L, span(t))
    yield st, ('tuple', (mk_slice(base, Int(0), mid), mk_slice(base, mid, L)))


@model('core::slice::split_at_mut')
def m_split_at_mut(I, st, callee, argv, depth, t, dty):
    r = argv[0]
    mid = freeze(st, argv[1])
    L = I.len_of(st, argv[0])
    st.ev('slice', L, mid, L, span(t))
    if r is not None and r[0] == 'ref':
        yield st, ('tuple', (('ref', r[1], r[2] + (('s', Int(0), mid),)), ('ref', r[1], r[2] + (('s', mid, L),))))
    else:
        base = bytes_of(st, argv[0])
        yield st, ('tuple', (mk_slice(base, Int(0), mid), mk_slice(base, mid, L)))


@model('generic_array::GenericArray::clone_from_slice', 'generic_array::GenericArray::from_slice')
def m_cfs(I, st, callee, argv, depth, t, dty):
    c = bytes_of(st, argv[0])
    args = callee.get('args') or []
    n = None
    for a in args:
        m = re.fullmatch(r'U(\d+)', a)
        if m:
            n = int(m.group(1))
    st.ev('exact-len', I.len_of(st, argv[0]), Int(n if n is not None else -1), callee['name'], span(t))
    yield st, c


@model('core::slice::copy_from_slice')
def m_copy_from_slice(I, st, callee, argv, depth, t, dty):
    src = bytes_of(st, argv[1])
    st.ev('exact-len', I.len_of(st, argv[1]), I.len_of(st, argv[0]), 'copy_from_slice', span(t))
    if argv[0] is not None and argv[0][0] == 'ref':
        I.write_res(st, ('cell', argv[0][1], argv[0][2]), src)
    yield st, UNIT


@model('generic_array::sequence::Concat::concat')
def m_concat(I, st, callee, argv, depth, t, dty):
    yield st, Cat([bytes_of(st, argv[0]), bytes_of(st, argv[1])])


@model('core::slice::concat', 'alloc::slice::concat')
def m_slice_concat(I, st, callee, argv, depth, t, dty):
    v = freeze(st, deref_val(st, argv[0]))
    if v is not None and v[0] in ('array', 'list'):
        yield st, Cat([norm_bytes(x) for x in v[1]])
    else:
        yield st, App('concat', v)


@model('core::slice::to_vec', 'alloc::slice::to_vec', 'alloc::borrow::ToOwned::to_owned')
def m_to_vec(I, st, callee, argv, depth, t, dty):
    yield st, bytes_of(st, argv[0])


@model('core::num::leading_zeros')
def m_lz(I, st, callee, argv, depth, t, dty):
    v = freeze(st, argv[0])
    if v[0] == 'int':
        yield st, Int(64 - v[1].bit_length())
    else:
        yield st, App('leading_zeros', v)


@model('core::num::div_ceil')
def m_div_ceil(I, st, callee, argv, depth, t, dty):
    a, b = freeze(st, argv[0]), freeze(st, argv[1])
    if a[0] == 'int' and b[0] == 'int' and b[1] != 0:
        yield st, Int(-(-a[1] // b[1]))
    else:
        yield st, App('div_ceil', a, b)


@model('core::cmp::min', 'core::cmp::Ord::min', 'core::cmp::max', 'core::cmp::Ord::max', 'std::cmp::min', 'std::cmp::max')
def m_minmax(I, st, callee, argv, depth, t, dty):
    a, b = freeze(st, argv[0]), freeze(st, argv[1])
    f = callee['name']
    if a[0] == 'int' and b[0] == 'int':
        yield st, Int(min(a[1], b[1]) if f == 'min' else max(a[1], b[1]))
    else:
        yield st, App(f, a, b)


@model('core::num::saturating_sub')
def m_satsub(I, st, callee, argv, depth, t, dty):
    a, b = freeze(st, argv[0]), freeze(st, argv[1])
    if a[0] == 'int' and b[0] == 'int':
        yield st, Int(max(a[1] - b[1], 0))
    else:
        yield st, App('saturating_sub', a, b)


_INT_MAX = {'u8': 2**8 - 1, 'u16': 2**16 - 1, 'u32': 2**32 - 1, 'u64': 2**64 - 1, 'usize': 2**64 - 1}


@model('core::num::checked_add', 'core::num::checked_sub', 'core::num::checked_mul')
def m_checked_arith(I, st, callee, argv, depth, t, dty):
    a, b = freeze(st, argv[0]), freeze(st, argv[1])
    sty = (callee.get('self_ty') or '')
    mx = _INT_MAX.get(sty)
    op = callee['name'][len('checked_'):]
    if a[0] == 'int' and b[0] == 'int' and mx is not None:
        r = {'add': a[1] + b[1], 'sub': a[1] - b[1], 'mul': a[1] * b[1]}[op]
        yield st, (Some(Int(r)) if 0 <= r <= mx else NONE)
        return
    test = App('checked_' + op, a, b)
    for s2, name, payload in I.fork_result(st, test, 'Some', 'None'):
        yield s2, (Some(App({'add': 'Add', 'sub': 'Sub', 'mul': 'Mul'}[op], a, b)) if name == 'Some' else NONE)


@model('core::num::to_be_bytes')
def m_tobe(I, st, callee, argv, depth, t, dty):
    v = freeze(st, argv[0])
    sty = (callee.get('self_ty') or '')
    w = {'u8': 1, 'u16': 2, 'u32': 4, 'u64': 8, 'usize': 8}.get(sty)
    if w is None:
        m = re.search(r'\[u8; (\d+)\]', dty or '')
        w = int(m.group(1)) if m else None
    if v[0] == 'int' and w:
        yield st, Bytes(v[1].to_bytes(w, 'big'))
        return
    if v[0] == 'app' and v[1] == 'narrow':
        v = v[2][0]
    yield st, App('I2OSP', v, Int(w if w else -1))


# ---- iterators ---------------------------------------------------------------------------------------------
def as_list(st, v):
    v = deref_val(st, v)
    if v is None:
        return None
    if v[0] in ('list', 'array', 'tuple'):
        return [freeze(st, x) for x in v[1]]
    rv = res_variant(v)
    if rv and rv[0] in ('Some', 'None'):
        return [freeze(st, rv[1])] if rv[0] == 'Some' else []
    return None


@model('core::iter::traits::collect::IntoIterator::into_iter')
def m_into_iter(I, st, callee, argv, depth, t, dty):
    v = argv[0]
    l = as_list(st, v) if (v is not None and v[0] != 'ref') else None
    if l is not None:
        yield st, ('list', tuple(l))
        return
    sty = callee.get('self_ty') or (callee.get('args') or [''])[0]
    if v is not None and v[0] == 'ref' and (sty.startswith('&') and ('[u8' in sty or 'GenericArray<u8' in sty)):
        yield st, ('biter', bytes_of(st, v))
        return
    yield st, v


@model('core::slice::iter', 'generic_array::GenericArray::iter')
def m_slice_iter(I, st, callee, argv, depth, t, dty):
    v = deref_val(st, argv[0])
    if v is not None and v[0] in ('array', 'list') and not all(x[0] == 'int' for x in v[1]):
        yield st, ('list', tuple(freeze(st, x) for x in v[1]))
        return
    yield st, ('biter', bytes_of(st, argv[0]))


@model('core::slice::iter_mut', 'generic_array::GenericArray::iter_mut')
def m_slice_iter_mut(I, st, callee, argv, depth, t, dty):
    yield st, ('bitermut', argv[0])


@model('core::iter::traits::iterator::Iterator::chain')
def m_iterchain(I, st, callee, argv, depth, t, dty):
    a = deref_val(st, argv[0])
    b = deref_val(st, argv[1])
    if a is not None and a[0] == 'biter':
        bb = b[1] if (b is not None and b[0] == 'biter') else bytes_of(st, argv[1])
        yield st, ('biter', Cat([a[1], bb]))
        return
    la, lb = as_list(st, argv[0]), as_list(st, argv[1])
    if la is not None and lb is not None:
        yield st, ('list', tuple(la) + tuple(lb))
        return
    yield st, App('chain', freeze(st, a), freeze(st, b))


@model('core::iter::traits::iterator::Iterator::flatten')
def m_flatten(I, st, callee, argv, depth, t, dty):
    l = as_list(st, argv[0])
    if l is not None:
        yield st, ('biter', Cat([norm_bytes(x) for x in l]))
        return
    yield st, App('flatten', freeze(st, argv[0]))


@model('core::iter::traits::iterator::Iterator::copied', 'core::iter::traits::iterator::Iterator::cloned',
       'core::iter::traits::iterator::Iterator::by_ref')
def m_copied(I, st, callee, argv, depth, t, dty):
    yield st, argv[0]


@model('core::iter::traits::iterator::Iterator::zip')
def m_zip(I, st, callee, argv, depth, t, dty):
    b = deref_val(st, argv[1])
    if b is not None and b[0] != 'biter':
        b = ('biter', bytes_of(st, argv[1]))
    yield st, ('zip', argv[0], freeze(st, b), 0)


@model('core::ops::range::RangeInclusive::new')
def m_range_incl(I, st, callee, argv, depth, t, dty):
    yield st, ('range', freeze(st, argv[0]), freeze(st, argv[1]), 0)


@model('core::iter::traits::iterator::Iterator::next')
def m_next(I, st, callee, argv, depth, t, dty):
    r = argv[0]
    it = deref_val(st, r)
    isref = r is not None and r[0] == 'ref'
    if it is not None and it[0] in ('list', 'array') and isref:
        items = it[1]
        if not items:
            yield st, NONE
            return
        I.write_res(st, ('cell', r[1], r[2]), ('list', tuple(items[1:])))
        yield st, Some(items[0])
        return
    if it is not None and it[0] == 'zip' and isref:
        if it[3]:
            yield st, NONE
            return
        I.write_res(st, ('cell', r[1], r[2]), ('zip', it[1], it[2], 1))
        a = deref_val(st, it[1])
        b = it[2]
        la = lb = None
        if a is not None and a[0] == 'bitermut':
            la = I.len_of(st, a[1])
        if b is not None and b[0] == 'biter':
            lb = tlen(b[1])
        st.ev('zipwith', la, Int(lb) if lb is not None else None, span(t))
        yield st, Some(('tuple', (a, b)))
        return
    if it is not None and it[0] == 'range' and isref:
        k = it[3]
        if k >= 2:
            st.ev('LOOPSUM', 'range', span(t))
            yield st, NONE
            return
        I.write_res(st, ('cell', r[1], r[2]), ('range', it[1], it[2], k + 1))
        s2 = st.copy()
        yield s2, Some(App('RangeItem', it[1], it[2], Int(k)))
        st.ev('range-exhausted', k)
        yield st, NONE
        return
    if it is not None and it[0] in ('lazy', 'repeat_with') and isref:
        for s2, nit, item in iter_step(I, st, it, depth, t):
            I.write_res(s2, ('cell', r[1], r[2]), nit)
            yield s2, (Some(item) if item is not None else NONE)
        return
    # opaque iterator: bounded unrolling
    st.ev('LOOPSUM', 'opaque-iter', span(t))
    I.notes.append('opaque iterator at ' + span(t))
    yield st, NONE


# ---- lazy iterators ------------------------------------------------------------------------------------------------------------
# Iterator values: ('list', items) | ('range', lo, hi, k) | ('lazy', base, op, f) with op in map/filter/filter_map/take_while |
# ('repeat_with', f, k).  `iter_step` advances any of them by one element; adaptors are lazy (the closure runs when the element is
# pulled, in pull order - the order of side effects such as RNG draws is the program's).  Ranges keep the symbolic two-iteration
# unrolling of `for` loops (RangeItem(lo, hi, k), k = 0, 1, then LOOPSUM), and so does repeat_with.

def iter_step(I, st, it, depth, t):
    """yield (state, advanced iterator, item | None)"""
    it = deref_val(st, it)
    kind = it[0] if it is not None else None
    if kind in ('list', 'array'):
        items = it[1]
        if not items:
            yield st, ('list', ()), None
        else:
            yield st, ('list', tuple(items[1:])), freeze(st, items[0])
        return
    if kind == 'range':
        k = it[3]
        if k >= 2:
            st.ev('LOOPSUM', 'range', span(t))
            yield st, it, None
            return
        s2 = st.copy()
        yield s2, ('range', it[1], it[2], k + 1), App('RangeItem', it[1], it[2], Int(k))
        st.ev('range-exhausted', k)
        yield st, it, None
        return
    if kind == 'zip':
        # one pseudo-element standing for all pairs of (mutable byte view, byte view): the element-wise operation is applied to the whole views
        if it[3]:
            yield st, it, None
            return
        a = deref_val(st, it[1])
        b = it[2]
        la = lb = None
        if a is not None and a[0] == 'bitermut':
            la = I.len_of(st, a[1])
        if b is not None and b[0] == 'biter':
            lb = tlen(b[1])
        st.ev('zipwith', la, Int(lb) if lb is not None else None, span(t))
        yield st, ('zip', it[1], it[2], 1), ('tuple', (a, b))
        return
    if kind == 'repeat_with':
        f, k = it[1], it[2]
        if k >= 2:
            st.ev('LOOPSUM', 'repeat_with', span(t))
            I.notes.append('loop cap in repeat_with at ' + span(t))
            return          # an infinite source: paths that need a third element are not explored (noted)
        for s2, y in I.apply_callable(st, f, [], depth, t):
            yield s2, ('repeat_with', f, k + 1), y
        return
    if kind == 'lazy':
        base, op, f = it[1], it[2], it[3]
        for s2, nb, item in iter_step(I, st, base, depth, t):
            nit = ('lazy', nb, op, f)
            if item is None:
                yield s2, nit, None
                continue
            if op == 'map':
                for s3, y in I.apply_callable(s2, f, [item], depth, t):
                    yield s3, nit, y
            elif op in ('filter', 'take_while'):
                a = s2.alloc(item)
                for s3, b in I.apply_callable(s2, f, [('ref', a, ())], depth, t):
                    for s4, val in fork_bool(I, s3, b):
                        if val:
                            yield s4, nit, item
                        elif op == 'take_while':
                            yield s4, ('list', ()), None
                        else:
                            yield from iter_step(I, s4, nit, depth, t)
            elif op == 'filter_map':
                for s3, y in I.apply_callable(s2, f, [item], depth, t):
                    for s4, name, payload in I.fork_result(s3, y, 'Some', 'None'):
                        if name == 'Some':
                            yield s4, nit, payload
                        else:
                            yield from iter_step(I, s4, nit, depth, t)
        return
    st.ev('LOOPSUM', 'opaque-iter', span(t))
    I.notes.append('opaque iterator at ' + span(t))
    yield st, it, None


def is_steppable(st, v):
    v = deref_val(st, v)
    return v is not None and v[0] in ('list', 'array', 'range', 'lazy', 'repeat_with', 'zip')


def _writeback(I, st, r, nit):
    if r is not None and r[0] == 'ref':
        I.write_res(st, ('cell', r[1], r[2]), nit)


def _lazy(op):
    def m(I, st, callee, argv, depth, t, dty):
        base = deref_val(st, argv[0])
        if is_steppable(st, base):
            yield st, ('lazy', base, op, argv[1])
        else:
            yield st, App(op, freeze(st, base), freeze(st, argv[1]))
    return m


MODELS['core::iter::traits::iterator::Iterator::map'] = _lazy('map')
MODELS['core::iter::traits::iterator::Iterator::filter'] = _lazy('filter')
MODELS['core::iter::traits::iterator::Iterator::filter_map'] = _lazy('filter_map')
MODELS['core::iter::traits::iterator::Iterator::take_while'] = _lazy('take_while')


@model('core::iter::sources::repeat_with::repeat_with', 'core::iter::repeat_with', 'std::iter::repeat_with')
def m_repeat_with(I, st, callee, argv, depth, t, dty):
    yield st, ('repeat_with', argv[0], 0)


@model('core::iter::traits::iterator::Iterator::find')
def m_iter_find(I, st, callee, argv, depth, t, dty):
    if not is_steppable(st, argv[0]):
        st.ev('LOOPSUM', 'find over an opaque iterator', span(t))
        I.notes.append('opaque iterator at ' + span(t))
        yield st, App('find', freeze(st, argv[0]))
        return
    def go(s, it):
        for s2, nit, item in iter_step(I, s, it, depth, t):
            if item is None:
                _writeback(I, s2, argv[0], nit)
                yield s2, NONE
                continue
            a = s2.alloc(item)
            for s3, b in I.apply_callable(s2, argv[1], [('ref', a, ())], depth, t):
                for s4, val in fork_bool(I, s3, b):
                    if val:
                        _writeback(I, s4, argv[0], nit)
                        yield s4, Some(item)
                    else:
                        yield from go(s4, nit)
    yield from go(st, deref_val(st, argv[0]))


@model('core::iter::traits::iterator::Iterator::find_map')
def m_iter_find_map(I, st, callee, argv, depth, t, dty):
    if not is_steppable(st, argv[0]):
        st.ev('LOOPSUM', 'find_map over an opaque iterator', span(t))
        I.notes.append('opaque iterator at ' + span(t))
        yield st, App('find_map', freeze(st, argv[0]))
        return
    def go(s, it):
        for s2, nit, item in iter_step(I, s, it, depth, t):
            if item is None:
                _writeback(I, s2, argv[0], nit)
                yield s2, NONE
                continue
            for s3, y in I.apply_callable(s2, argv[1], [item], depth, t):
                for s4, name, payload in I.fork_result(s3, y, 'Some', 'None'):
                    if name == 'Some':
                        _writeback(I, s4, argv[0], nit)
                        yield s4, Some(payload)
                    else:
                        yield from go(s4, nit)
    yield from go(st, deref_val(st, argv[0]))


@model('core::iter::traits::iterator::Iterator::any', 'core::iter::traits::iterator::Iterator::all')
def m_iter_any_all(I, st, callee, argv, depth, t, dty):
    want = callee['name'] == 'any'
    if not is_steppable(st, argv[0]):
        st.ev('LOOPSUM', '%s over an opaque iterator' % callee['name'], span(t))
        I.notes.append('opaque iterator at ' + span(t))
        yield st, App(callee['name'], freeze(st, argv[0]))
        return
    def go(s, it):
        for s2, nit, item in iter_step(I, s, it, depth, t):
            if item is None:
                yield s2, Int(0 if want else 1)
                continue
            for s3, b in I.apply_callable(s2, argv[1], [item], depth, t):
                for s4, val in fork_bool(I, s3, b):
                    if val == want:
                        yield s4, Int(1 if want else 0)
                    else:
                        yield from go(s4, nit)
    yield from go(st, deref_val(st, argv[0]))


@model('core::iter::traits::iterator::Iterator::try_for_each')
def m_iter_try_for_each(I, st, callee, argv, depth, t, dty):
    if not is_steppable(st, argv[0]):
        st.ev('LOOPSUM', 'try_for_each over an opaque iterator', span(t))
        I.notes.append('opaque iterator at ' + span(t))
        yield st, App('try_for_each', freeze(st, argv[0]))
        return
    ty = dty or ''
    if 'ControlFlow' in ty:
        adt, go_on, stop = CF, 'Continue', 'Break'
    elif 'Option' in ty and 'Result' not in ty.split('<')[0]:
        adt, go_on, stop = OPTION, 'Some', 'None'
    else:
        adt, go_on, stop = RESULT, 'Ok', 'Err'
    def go(s, it):
        for s2, nit, item in iter_step(I, s, it, depth, t):
            if item is None:
                _writeback(I, s2, argv[0], nit)
                yield s2, mk(adt, go_on, UNIT)
                continue
            for s3, y in I.apply_callable(s2, argv[1], [item], depth, t):
                for s4, name, payload in I.fork_result(s3, y, go_on, stop):
                    if name == stop:
                        _writeback(I, s4, argv[0], nit)
                        yield s4, (mk(adt, stop, payload) if adt != OPTION else NONE)
                    else:
                        yield from go(s4, nit)
    yield from go(st, deref_val(st, argv[0]))


@model('core::option::Option::unwrap_or_else', 'core::result::Result::unwrap_or_else')
def m_unwrap_or_else(I, st, callee, argv, depth, t, dty):
    is_res = 'result::Result' in (callee.get('self_dpath') or callee.get('path') or '')
    ok, err = ('Ok', 'Err') if is_res else ('Some', 'None')
    for s2, name, payload in I.fork_result(st, argv[0], ok, err):
        if name == ok:
            yield s2, payload
        else:
            yield from I.apply_callable(s2, argv[1], ([payload] if is_res else []), depth, t)


@model('core::option::Option::copied', 'core::option::Option::cloned', 'core::option::Option::as_ref', 'core::result::Result::as_ref',
       'core::option::Option::as_mut', 'core::result::Result::as_mut', 'core::option::Option::as_deref', 'core::result::Result::copied',
       'core::result::Result::cloned')
def m_opt_view(I, st, callee, argv, depth, t, dty):
    # a view / copy of a fallible value is the value (references are transparent in the term domain)
    yield st, deref_val(st, argv[0])


@model('core::slice::split_first')
def m_split_first(I, st, callee, argv, depth, t, dty):
    c = bytes_of(st, argv[0])
    l = tlen(c)
    L = I.len_of(st, argv[0])
    if l == 0:
        yield st, NONE
        return
    pair = ('tuple', (App('first', c), mk_slice(c, Int(1), L)))
    if l is not None:
        yield st, Some(pair)
        return
    for s2, name, payload in I.fork_result(st, App('nonempty', c), 'Some', 'None'):
        yield s2, (Some(pair) if name == 'Some' else NONE)


@model('core::iter::sources::once::once', 'core::iter::once', 'std::iter::once')
def m_iter_once(I, st, callee, argv, depth, t, dty):
    yield st, ('list', (argv[0],))


@model('core::iter::sources::empty::empty', 'core::iter::empty', 'std::iter::empty')
def m_iter_empty(I, st, callee, argv, depth, t, dty):
    yield st, ('list', ())


@model('typenum::marker_traits::Unsigned::to_usize', 'typenum::marker_traits::Unsigned::to_u64', 'typenum::marker_traits::Unsigned::to_u32',
       'typenum::marker_traits::Unsigned::to_u16', 'typenum::marker_traits::Unsigned::to_u8')
def m_typenum_to(I, st, callee, argv, depth, t, dty):
    # the value of a type-level number (the extractor prints typenum types as U<n>)
    for a in (callee.get('args') or []) + [callee.get('self_ty') or '']:
        m = re.fullmatch(r'U(\d+)', a or '')
        if m:
            yield st, Int(int(m.group(1)))
            return
    yield st, App('to_usize', *[('unk', a) for a in (callee.get('args') or [])])


ORDERING = 'core::cmp::Ordering'


@model('core::cmp::Ord::cmp', 'core::cmp::PartialOrd::partial_cmp')
def m_cmp(I, st, callee, argv, depth, t, dty):
    """three-way comparison of two integers (lengths): decided when both are known, otherwise three paths with the two assumptions an
    `if a == b {..} else if a < b {..} else {..}` chain would record"""
    a = freeze(st, deref_val(st, argv[0]))
    b = freeze(st, deref_val(st, argv[1]))
    def known_len(x):
        if x is not None and x[0] == 'app' and x[1] == 'len' and len(x[2]) == 1:
            n = tlen(x[2][0])
            if n is not None:
                return Int(n)
        return x
    a, b = known_len(a), known_len(b)
    partial = callee['name'] == 'partial_cmp'
    wrap = (lambda o: Some(o)) if partial else (lambda o: o)
    O = lambda n: Adt(ORDERING, n, [])
    if a[0] == 'int' and b[0] == 'int':
        yield st, wrap(O('Less' if a[1] < b[1] else ('Equal' if a[1] == b[1] else 'Greater')))
        return
    for s2, eq in fork_bool(I, st, I.binop(st, 'Eq', a, b)):
        if eq:
            yield s2, wrap(O('Equal'))
            continue
        for s3, lt in fork_bool(I, s2, I.binop(s2, 'Lt', a, b)):
            yield s3, wrap(O('Less' if lt else 'Greater'))


@model('core::slice::get')
def m_slice_get(I, st, callee, argv, depth, t, dty):
    base = bytes_of(st, argv[0])
    idx = freeze(st, argv[1])
    L = I.len_of(st, argv[0])
    rb = range_bounds(I, st, argv[0], argv[1])
    if rb is not None:
        a, b = rb
        cond = I.binop(st, 'Le', b, L)
        for s2, ok in fork_bool(I, st, cond):
            yield s2, (Some(mk_slice(base, a, b)) if ok else NONE)
        return
    cond = I.binop(st, 'Lt', idx, L)
    for s2, ok in fork_bool(I, st, cond):
        yield s2, (Some(App('index', base, idx)) if ok else NONE)


@model('core::slice::split_first_chunk', 'core::slice::first_chunk')
def m_split_first_chunk(I, st, callee, argv, depth, t, dty):
    base = bytes_of(st, argv[0])
    L = I.len_of(st, argv[0])
    n = None
    for a in (callee.get('args') or []):
        if re.fullmatch(r'\d+', str(a)):
            n = int(a)
    if n is None:
        m = re.search(r'\[u8; (\d+)\]', dty or '')
        n = int(m.group(1)) if m else None
    if n is None:
        yield st, App(callee['name'], base)
        return
    cond = I.binop(st, 'Le', Int(n), L)
    for s2, ok in fork_bool(I, st, cond):
        if not ok:
            yield s2, NONE
        elif callee['name'] == 'first_chunk':
            yield s2, Some(mk_slice(base, Int(0), Int(n)))
        else:
            yield s2, Some(('tuple', (mk_slice(base, Int(0), Int(n)), mk_slice(base, Int(n), L))))


@model('core::result::Result::transpose')
def m_res_transpose(I, st, callee, argv, depth, t, dty):
    # Result<Option<T>, E> -> Option<Result<T, E>>
    for s2, name, payload in I.fork_result(st, argv[0], 'Ok', 'Err'):
        if name == 'Err':
            yield s2, Some(Err(payload))
            continue
        for s3, n2, p2 in I.fork_result(s2, payload, 'Some', 'None'):
            yield s3, (Some(Ok(p2)) if n2 == 'Some' else NONE)


@model('core::option::Option::transpose')
def m_opt_transpose(I, st, callee, argv, depth, t, dty):
    # Option<Result<T, E>> -> Result<Option<T>, E>
    for s2, name, payload in I.fork_result(st, argv[0], 'Some', 'None'):
        if name == 'None':
            yield s2, Ok(NONE)
            continue
        for s3, n2, p2 in I.fork_result(s2, payload, 'Ok', 'Err'):
            yield s3, (Ok(Some(p2)) if n2 == 'Ok' else Err(p2))


@model('generic_array::sequence::GenericSequence::generate')
def m_ga_generate(I, st, callee, argv, depth, t, dty):
    n = ty_bytes_len(dty or '')
    if n is None:
        for a in (callee.get('args') or []):
            n = n if n is not None else ty_bytes_len(a)
    if n is None or n > 4096:
        yield st, App('generate', freeze(st, argv[0]))
        return
    def go(s, i, acc):
        if i == n:
            vals = [freeze(s, x) for x in acc]
            if all(x[0] == 'int' for x in vals):
                yield s, Bytes(bytes(x[1] & 0xff for x in vals))
            else:
                yield s, ('array', tuple(vals))
            return
        for s2, y in I.apply_callable(s, argv[0], [Int(i)], depth, t):
            yield from go(s2, i + 1, acc + [y])
    yield from go(st, 0, [])


@model('core::slice::contains')
def m_slice_contains(I, st, callee, argv, depth, t, dty):
    """`[0x02, 0x03].contains(&x)`: membership of a run-time byte in a constant set, recorded like a `match` on that byte"""
    hay = bytes_of(st, argv[0])
    needle = freeze(st, deref_val(st, argv[1]))
    if hay is not None and hay[0] == 'bytes' and needle is not None:
        vals = sorted(set(hay[1]))
        if needle[0] == 'int':
            yield st, Int(int(needle[1] in vals))
            return
        if needle in st.assume and isinstance(st.assume[needle], int) and st.assume[needle] >= 0:
            yield st, Int(int(st.assume[needle] in vals))
            return
        for v in vals:
            s2 = st.copy()
            s2.assume[needle] = v
            s2.ev('assume', needle, v)
            yield s2, Int(1)
        st.assume[needle] = -1
        st.ev('assume', needle, ('not', tuple(vals)))
        yield st, Int(0)
        return
    yield st, App('core::slice::contains', freeze(st, hay), needle)


@model('core::ops::bit::BitXorAssign::bitxor_assign')
def m_bxa(I, st, callee, argv, depth, t, dty):
    lhs = argv[0]
    rhs = deref_val(st, argv[1])
    if lhs is not None and lhs[0] == 'bitermut':
        tgt = lhs[1]
        old = bytes_of(st, tgt)
        rb = rhs[1] if (rhs is not None and rhs[0] == 'biter') else freeze(st, rhs)
        if tgt[0] == 'ref':
            I.write_res(st, ('cell', tgt[1], tgt[2]), mk_xor(old, rb))
        yield st, UNIT
        return
    if lhs is not None and lhs[0] == 'ref':
        old = bytes_of(st, lhs)
        rb = rhs[1] if (rhs is not None and rhs[0] == 'biter') else freeze(st, rhs)
        I.write_res(st, ('cell', lhs[1], lhs[2]), mk_xor(old, rb))
    yield st, UNIT


def mk_xor(a, b):
    # zero is the unit of xor; xor(p, xor(p, x)) = x (DESIGN 3.2-7d, an identity of XOR)
    if a is not None and a[0] == 'zero':
        return b
    if b is not None and b[0] == 'zero':
        return a
    if b is not None and b[0] == 'app' and b[1] == 'xor':
        if b[2][0] == a:
            return b[2][1]
        if b[2][1] == a:
            return b[2][0]
    return App('xor', a, b)


@model('core::ops::arith::Mul::mul')
def m_mul(I, st, callee, argv, depth, t, dty):
    yield st, App('mul', freeze(st, deref_val(st, argv[0])), freeze(st, deref_val(st, argv[1])))


# ---- digest / hmac / hkdf ------------------------------------------------------------------------------------
def hash_out_len(ty):
    m = re.search(r'VarCore, U(\d+)', ty or '')
    if m:
        return int(m.group(1))
    return None


@model('digest::digest::Digest::new', 'digest::digest::Digest::new_with_prefix')
def m_dnew(I, st, callee, argv, depth, t, dty):
    yield st, ('hasher', tuple(bytes_of(st, a) for a in argv))


@model('digest::Update::chain', 'digest::digest::Digest::chain_update')
def m_chain(I, st, callee, argv, depth, t, dty):
    h = deref_val(st, argv[0])
    x = bytes_of(st, argv[1])
    if h is not None and h[0] == 'hasher':
        yield st, ('hasher', h[1] + (x,))
    elif h is not None and h[0] == 'mac':
        yield st, ('mac', h[1], h[2] + (x,))
    else:
        yield st, App('chain', freeze(st, h), x)


@model('digest::digest::Digest::update', 'digest::Update::update')
def m_dupdate(I, st, callee, argv, depth, t, dty):
    r = argv[0]
    x = bytes_of(st, argv[1])
    h = deref_val(st, r)
    if r[0] == 'ref' and h is not None and h[0] == 'hasher':
        I.write_res(st, ('cell', r[1], r[2]), ('hasher', h[1] + (x,)))
    elif r[0] == 'ref' and h is not None and h[0] == 'mac':
        I.write_res(st, ('cell', r[1], r[2]), ('mac', h[1], h[2] + (x,)))
    else:
        st.ev('lost-update', span(t))
    yield st, UNIT


@model('digest::digest::Digest::finalize', 'digest::digest::Digest::finalize_reset', 'digest::FixedOutput::finalize_fixed')
def m_dfinal(I, st, callee, argv, depth, t, dty):
    h = deref_val(st, argv[0])
    n = hash_out_len(callee.get('self_ty') or (callee.get('args') or [''])[0])
    term = App('Hash', Cat(h[1])) if (h is not None and h[0] == 'hasher') else App('Hash', freeze(st, h))
    if n:
        terms.note_len(term, n)
    yield st, term


@model('digest::digest::Digest::digest')
def m_digest(I, st, callee, argv, depth, t, dty):
    yield st, App('Hash', bytes_of(st, argv[0]))


@model('digest::mac::Mac::new_from_slice', 'crypto_common::KeyInit::new_from_slice')
def m_macnew(I, st, callee, argv, depth, t, dty):
    yield st, Ok(('mac', bytes_of(st, argv[0]), ()))   # HMAC accepts any key length


@model('digest::mac::Mac::update')
def m_macupd(I, st, callee, argv, depth, t, dty):
    r = argv[0]
    m = deref_val(st, r)
    x = bytes_of(st, argv[1])
    if r[0] == 'ref' and m is not None and m[0] == 'mac':
        I.write_res(st, ('cell', r[1], r[2]), ('mac', m[1], m[2] + (x,)))
    else:
        st.ev('lost-update', span(t))
    yield st, UNIT


@model('digest::mac::Mac::chain_update')
def m_macchain(I, st, callee, argv, depth, t, dty):
    m = deref_val(st, argv[0])
    x = bytes_of(st, argv[1])
    yield st, (('mac', m[1], m[2] + (x,)) if (m is not None and m[0] == 'mac') else App('chain', freeze(st, m), x))


def mac_term(st, m, self_ty=None):
    if m is not None and m[0] == 'mac':
        term = App('Mac', m[1], Cat(m[2]))
    else:
        term = App('Mac', freeze(st, m))
    n = hash_out_len(self_ty)
    if n:
        terms.note_len(term, n)
    return term


@model('digest::mac::Mac::finalize', 'digest::mac::Mac::finalize_reset')
def m_macfin(I, st, callee, argv, depth, t, dty):
    m = deref_val(st, argv[0])
    yield st, mac_term(st, m, callee.get('self_ty') or (callee.get('args') or [''])[0])


def _verify(I, st, callee, argv, t, strength):
    m = deref_val(st, argv[0])
    tag = bytes_of(st, argv[1])
    if m is not None and m[0] == 'mac':
        key, msg = m[1], Cat(m[2])
    else:
        key, msg = ('unk', 'mac-state'), freeze(st, m)
    for name in ('Ok', 'Err'):
        I.paths += 1
        s2 = st.copy()
        s2.ev('MacVerify', name, key, msg, tag, strength, span(t))
        yield s2, (Ok(UNIT) if name == 'Ok' else Err(App('MacError')))


@model('digest::mac::Mac::verify', 'digest::mac::Mac::verify_slice', 'digest::mac::Mac::verify_reset',
       'digest::mac::Mac::verify_slice_reset')
def m_macverify(I, st, callee, argv, depth, t, dty):
    yield from _verify(I, st, callee, argv, t, 'full')


@model('digest::mac::Mac::verify_truncated_left', 'digest::mac::Mac::verify_truncated_right')
def m_macverify_trunc(I, st, callee, argv, depth, t, dty):
    yield from _verify(I, st, callee, argv, t, 'truncated')


@model('hkdf::Hkdf::from_prk')
def m_from_prk(I, st, callee, argv, depth, t, dty):
    prk = bytes_of(st, argv[0])
    n = hash_out_len(callee.get('self_ty') or '')
    l = tlen(prk)
    if n is not None and l is not None:
        yield st, (Ok(('hkdf', prk)) if l >= n else Err(App('InvalidPrkLength')))
        return
    test = App('Hkdf::from_prk', prk)
    for s2, name, payload in I.fork_result(st, test):
        yield s2, (Ok(('hkdf', prk)) if name == 'Ok' else Err(App('InvalidPrkLength')))


@model('hkdf::Hkdf::new')
def m_hkdf_new(I, st, callee, argv, depth, t, dty):
    salt = freeze(st, argv[0])
    rv = res_variant(salt)
    s = Bytes(b'') if (rv and rv[0] == 'None') else (bytes_of(st, rv[1]) if rv else salt)
    yield st, ('hkdf', App('Extract', s, bytes_of(st, argv[1])))


@model('hkdf::Hkdf::extract')
def m_hkdf_extract(I, st, callee, argv, depth, t, dty):
    # Hkdf::extract(salt, ikm) = (PRK, Hkdf keyed with PRK): one-shot form of HkdfExtract::new / input_ikm / finalize
    salt = freeze(st, argv[0])
    rv = res_variant(salt)
    s = Bytes(b'') if (rv and rv[0] == 'None') else (bytes_of(st, rv[1]) if rv else salt)
    prk = App('Extract', s, bytes_of(st, argv[1]))
    n = hash_out_len(callee.get('self_ty') or '')
    if n:
        terms.note_len(prk, n)
    yield st, ('tuple', (prk, ('hkdf', prk)))


def do_expand(I, st, hk, info, okm_ref, callee, t):
    h = deref_val(st, hk)
    prk = h[1] if (h is not None and h[0] == 'hkdf') else freeze(st, h)
    cur = deref_val(st, okm_ref)
    L = tlen(freeze(st, cur))
    n = hash_out_len(callee.get('self_ty') or '')
    val = App('Expand', prk, info, Int(L) if L is not None else Sym('?'))
    if L is not None:
        terms.note_len(val, L)

    def write(s):
        if okm_ref is not None and okm_ref[0] == 'ref':
            I.write_res(s, ('cell', okm_ref[1], okm_ref[2]), val)
        s.ev('expand', prk, info, Int(L) if L is not None else None, span(t))
    if L is not None and n is not None:
        if L <= 255 * n:
            write(st)
            yield st, Ok(UNIT)
        else:
            yield st, Err(App('InvalidLength'))
        return
    test = App('Hkdf::expand', prk, info)
    for s2, name, payload in I.fork_result(st, test):
        if name == 'Ok':
            write(s2)
            yield s2, Ok(UNIT)
        else:
            yield s2, Err(App('InvalidLength'))


@model('hkdf::Hkdf::expand')
def m_expand(I, st, callee, argv, depth, t, dty):
    yield from do_expand(I, st, argv[0], bytes_of(st, argv[1]), argv[2], callee, t)


@model('hkdf::Hkdf::expand_multi_info')
def m_expand_multi(I, st, callee, argv, depth, t, dty):
    infos = freeze(st, deref_val(st, argv[1]))
    parts = [norm_bytes(x) for x in infos[1]] if (infos is not None and infos[0] in ('array', 'tuple', 'list')) else [infos]
    yield from do_expand(I, st, argv[0], Cat(parts), argv[2], callee, t)


@model('hkdf::HkdfExtract::new')
def m_exnew(I, st, callee, argv, depth, t, dty):
    salt = freeze(st, argv[0])
    rv = res_variant(salt)
    yield st, ('extract', Bytes(b'') if (rv and rv[0] == 'None') else (rv[1] if rv else salt), ())


@model('hkdf::HkdfExtract::input_ikm')
def m_exin(I, st, callee, argv, depth, t, dty):
    r = argv[0]
    e = deref_val(st, r)
    x = bytes_of(st, argv[1])
    if r[0] == 'ref' and e is not None and e[0] == 'extract':
        I.write_res(st, ('cell', r[1], r[2]), ('extract', e[1], e[2] + (x,)))
    else:
        st.ev('lost-update', span(t))
    yield st, UNIT


@model('hkdf::HkdfExtract::finalize')
def m_exfin(I, st, callee, argv, depth, t, dty):
    e = deref_val(st, argv[0])
    prk = App('Extract', e[1], Cat(e[2])) if (e is not None and e[0] == 'extract') else App('Extract', freeze(st, e))
    n = hash_out_len(callee.get('self_ty') or '')
    if n:
        terms.note_len(prk, n)
    yield st, ('tuple', (prk, ('hkdf', prk)))


# ---- randomness -------------------------------------------------------------------------------------------------
def rng_term(st, r):
    v = deref_val(st, r)
    return freeze(st, v)


def _rng_failed(I, st, dst, call, t):
    st.assume[call] = 1
    st.ev('outcome', call, 'Err')
    yield st, Err(App('RngError', call))


@model('rand_core::RngCore::fill_bytes', 'rand_core::RngCore::try_fill_bytes')
def m_fill(I, st, callee, argv, depth, t, dty):
    if callee['name'] == 'try_fill_bytes':
        # fork before anything is written: the failing outcome leaves the destination untouched
        failed = st.copy()
    k = st.rng
    st.rng += 1
    rng = rng_term(st, argv[0])
    dst = argv[1]
    L = tlen(bytes_of(st, dst))
    val = App('Rng', rng, Int(k), Int(L) if L is not None else Sym('?'))
    if dst is not None and dst[0] == 'ref':
        I.write_res(st, ('cell', dst[1], dst[2]), val)
    st.ev('rng', 'fill_bytes', rng, k, L, span(t))
    if callee['name'] == 'try_fill_bytes':
        # the fallible interface can fail: on that outcome nothing was drawn and the destination keeps whatever it held
        yield st, Ok(UNIT)
        failed.rng = st.rng
        yield from _rng_failed(I, failed, dst, App('RngCore::try_fill_bytes', rng, Int(k)), t)
    else:
        yield st, UNIT


@model('rand_core::RngCore::next_u32', 'rand_core::RngCore::next_u64')
def m_next_u(I, st, callee, argv, depth, t, dty):
    k = st.rng
    st.rng += 1
    rng = rng_term(st, argv[0])
    st.ev('rng', callee['name'], rng, k, None, span(t))
    yield st, App('Rng', rng, Int(k), Sym(callee['name']))


# ---- voprf ---------------------------------------------------------------------------------------------------------
@model('voprf::oprf::OprfClient::blind')
def m_vblind(I, st, callee, argv, depth, t, dty):
    k = st.rng
    st.rng += 1
    inp = bytes_of(st, argv[0])
    rng = rng_term(st, argv[1])
    blind = App('Rng', rng, Int(k), Sym('scalar'))
    st.ev('rng', 'voprf-blind', rng, k, None, span(t))
    test = App('voprf::blind', inp, blind)
    for s2, name, payload in I.fork_result(st, test):
        s2.ev('call', 'voprf::OprfClient::blind', (inp, blind), span(t))
        if name == 'Ok':
            yield s2, Ok(Adt('voprf::oprf::OprfClientBlindResult', 'OprfClientBlindResult',
                             [('state', App('OprfClient', blind)), ('message', App('Blind', inp, blind))]))
        else:
            yield s2, Err(App('voprf::Error', Sym('blind')))


@model('voprf::oprf::OprfClient::deterministic_blind_unchecked')
def m_vdblind(I, st, callee, argv, depth, t, dty):
    inp = bytes_of(st, argv[0])
    blind = freeze(st, argv[1])
    test = App('voprf::blind', inp, blind)
    for s2, name, payload in I.fork_result(st, test):
        s2.ev('call', 'voprf::OprfClient::deterministic_blind_unchecked', (inp, blind), span(t))
        if name == 'Ok':
            yield s2, Ok(Adt('voprf::oprf::OprfClientBlindResult', 'OprfClientBlindResult',
                             [('state', App('OprfClient', blind)), ('message', App('Blind', inp, blind))]))
        else:
            yield s2, Err(App('voprf::Error', Sym('blind')))


@model('voprf::oprf::OprfClient::finalize')
def m_vfinal(I, st, callee, argv, depth, t, dty):
    state = freeze(st, deref_val(st, argv[0]))
    inp = bytes_of(st, argv[1])
    ev = freeze(st, deref_val(st, argv[2]))
    term = App('Finalize', inp, state, ev)
    if I.honest and state[0] == 'app' and state[1] == 'OprfClient' and ev[0] == 'app' and ev[1] == 'Eval' \
            and ev[2][1] == App('Blind', inp, state[2][0]):
        # DESIGN 3.2-7b: Finalize(pw, r, Eval(k, Blind(pw, r))) = F(k, pw) (OPRF unblinding; assumed)
        term = App('F', ev[2][0], inp)
    for s2, name, payload in I.fork_result(st, App('voprf::finalize', inp, state, ev)):
        s2.ev('call', 'voprf::OprfClient::finalize', (inp, state, ev), span(t))
        yield s2, (Ok(term) if name == 'Ok' else Err(App('voprf::Error', Sym('finalize'))))


@model('voprf::common::BlindedElement::value', 'voprf::common::EvaluationElement::value')
def m_value(I, st, callee, argv, depth, t, dty):
    yield st, freeze(st, deref_val(st, argv[0]))


@model('voprf::group::Group::serialize_elem', 'voprf::common::BlindedElement::serialize',
       'voprf::common::EvaluationElement::serialize')
def m_ser_elem(I, st, callee, argv, depth, t, dty):
    yield st, App('ser_elem', freeze(st, deref_val(st, argv[0])))


@model('voprf::group::Group::serialize_scalar')
def m_ser_scalar(I, st, callee, argv, depth, t, dty):
    yield st, App('ser_scalar', freeze(st, deref_val(st, argv[0])))


@model('voprf::oprf::OprfClient::serialize')
def m_client_ser(I, st, callee, argv, depth, t, dty):
    yield st, App('ser_scalar', freeze(st, deref_val(st, argv[0])))


@model('voprf::group::Group::identity_elem')
def m_identity_elem(I, st, callee, argv, depth, t, dty):
    yield st, App('identity_elem')


def _vdecode(name):
    def f(I, st, callee, argv, depth, t, dty):
        inp = bytes_of(st, argv[0])
        call = App(name, inp)
        if I.honest and inp[0] == 'app' and inp[1] in ('ser_elem', 'ser_scalar'):
            yield st, Ok(inp[2][0])
            return
        for s2, nm, payload in I.fork_result(st, call):
            s2.ev('call', name, (inp,), span(t))
            yield s2, (Ok(App('Decoded', Sym(name.split('::')[-2]), inp)) if nm == 'Ok' else Err(App('voprf::Error', Sym('deserialize'))))
    return f


MODELS['voprf::common::BlindedElement::deserialize'] = _vdecode('voprf::BlindedElement::deserialize')
MODELS['voprf::common::EvaluationElement::deserialize'] = _vdecode('voprf::EvaluationElement::deserialize')
MODELS['voprf::oprf::OprfClient::deserialize'] = _vdecode('voprf::OprfClient::deserialize')


@model('voprf::oprf::OprfServer::new_with_key')
def m_newkey(I, st, callee, argv, depth, t, dty):
    k = bytes_of(st, argv[0])
    for s2, name, payload in I.fork_result(st, App('voprf::OprfServer::new_with_key', k)):
        s2.ev('call', 'voprf::OprfServer::new_with_key', (k,), span(t))
        yield s2, (Ok(App('OprfServer', k)) if name == 'Ok' else Err(App('voprf::Error', Sym('new_with_key'))))


@model('voprf::oprf::OprfServer::blind_evaluate')
def m_beval(I, st, callee, argv, depth, t, dty):
    srv = freeze(st, deref_val(st, argv[0]))
    el = freeze(st, deref_val(st, argv[1]))
    st.ev('call', 'voprf::OprfServer::blind_evaluate', (srv, el), span(t))
    yield st, App('Eval', srv, el)


@model('voprf::common::derive_key')
def m_derive_key(I, st, callee, argv, depth, t, dty):
    seed = bytes_of(st, argv[0])
    info = bytes_of(st, argv[1])
    mode = freeze(st, argv[2])
    term = App('DeriveKey', seed, info, mode)
    for s2, name, payload in I.fork_result(st, App('voprf::derive_key', seed, info, mode)):
        s2.ev('call', 'voprf::derive_key', (seed, info, mode), span(t))
        yield s2, (Ok(term) if name == 'Ok' else Err(App('voprf::Error', Sym('derive_key'))))


@model('voprf::common::Mode::to_u8')
def m_mode_u8(I, st, callee, argv, depth, t, dty):
    v = freeze(st, argv[0])
    if v is not None and v[0] == 'adt':
        yield st, Int({'Oprf': 0, 'Voprf': 1, 'Poprf': 2}[v[2]])
        return
    if v is not None and v[0] == 'int':
        yield st, v
        return
    yield st, App('Mode::to_u8', v)


# ---- the crate's integer encoder, recognised by shape --------------------------------------------------------------
def m_i2osp(I, st, callee, argv, depth, t, dty, w):
    n = freeze(st, argv[0])
    if n[0] == 'int':
        if n[1] < (1 << (8 * w)):
            yield st, Ok(Bytes(n[1].to_bytes(w, 'big')))
        else:
            yield st, Err(Adt('opaque_ke::errors::ProtocolError', 'SerializationError', []))
        return
    call = App('I2OSP?', n, Int(w))
    for s2, name, payload in I.fork_result(st, call):
        s2.ev('I2OSP', name, n, w, span(t))
        if name == 'Ok':
            yield s2, Ok(App('I2OSP', n, Int(w)))
        else:
            yield s2, Err(Adt('opaque_ke::errors::ProtocolError', 'SerializationError', []))
