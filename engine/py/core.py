"""Shared infrastructure of the checks: context (facts, suites, summaries), obligations, report."""
import json
import os
import re
import sys
import time

import facts
import interp
import terms
from terms import *  # noqa

VERIF = facts.VERIF
EVID = os.path.join(VERIF, 'evidence')


class PState:
    """what rules may read of a path's final state"""
    __slots__ = ('assume',)

    def __init__(self, assume):
        self.assume = assume


class Path:
    """one return state of a summarised function"""
    __slots__ = ('outcome', 'value', 'payload', 'events', 'state')

    def __init__(self, st, ret):
        rv = interp.res_variant(ret)
        if rv and rv[0] in ('Ok', 'Err'):
            self.outcome = rv[0]
            self.payload = rv[1]
        else:
            self.outcome = 'Ret'
            self.payload = ret
        self.value = ret
        self.events = st.events
        self.state = PState(dict(st.assume))

    @property
    def ok(self):
        return self.outcome in ('Ok', 'Ret')

    def evs(self, kind):
        return [(i, e) for i, e in enumerate(self.events) if e[0] == kind]

    def calls(self, key):
        return [(i, e) for i, e in enumerate(self.events) if e[0] == 'call' and e[1] == key]

    def macverifies(self):
        # ('MacVerify', outcome, key, msg, tag, strength, span)
        return [(i, e) for i, e in enumerate(self.events) if e[0] == 'MacVerify']

    def index_of_construct(self, adt_suffix):
        for i, e in enumerate(self.events):
            if e[0] == 'construct' and e[1].endswith(adt_suffix):
                return i
        return None


class Summary:
    def __init__(self, body, I, outs, params):
        self.body = body
        self.paths = [Path(s, r) for s, r in outs]
        self.diverged = [Path(s, ('unk', 'diverged')) for s in I.diverged]
        self.notes = list(I.notes)
        self.unmodelled = dict(I.unmodelled)
        self.params = params
        self.len_log = []

    @property
    def ok_paths(self):
        return [p for p in self.paths if p.ok]

    @property
    def err_paths(self):
        return [p for p in self.paths if not p.ok]

    @property
    def complete(self):
        return not any(n.startswith('STOP') or 'loop cap' in n or 'opaque iterator' in n for n in self.notes)


class Ctx:
    def __init__(self, tier='quick'):
        self.tier = tier
        self.t0 = time.time()
        self.dir = facts.ensure(thorough=(tier == 'thorough'))
        self.g = facts.load(self.dir, 'g-all')
        self.adts = {a['dpath']: [v['name'] for v in a['variants']] for a in self.g['adts']}
        self.adt_fields = {a['dpath']: a for a in self.g['adts']}
        self.suite_names = list(facts.ALL_SUITES if tier == 'thorough' else facts.QUICK_SUITES)
        self._suites = {}
        self._summ = {}

    def suite(self, name):
        if name not in self._suites:
            if ':' in name:
                sub, base = name.split(':', 1)        # rel: / min: / vg: — fact sets of other build configurations or roots
                f = facts.load(os.path.join(self.dir, sub), 'm-' + base)
                f = dict(f)
                f['suite'] = name
                self._suites[name] = interp.Suite(f)
            else:
                self._suites[name] = interp.Suite(facts.load(self.dir, 'm-' + name))
        return self._suites[name]

    def gbody(self, suffix):
        return [b for b in self.g['bodies'] if b['path'].endswith(suffix)]

    def _code_hash(self):
        if not hasattr(self, '_ch'):
            import hashlib
            h = hashlib.sha256()
            here = os.path.dirname(os.path.abspath(__file__))
            for fn in ('interp.py', 'models.py', 'terms.py', 'core.py'):
                h.update(open(os.path.join(here, fn), 'rb').read())
            self._ch = h.hexdigest()[:16]
        return self._ch

    def summary(self, suite_name, generic_path, params=None, select=None, **kw):
        key = (suite_name, generic_path, select, tuple(sorted(kw.items())), tuple(params) if params else None)
        if key in self._summ:
            return self._summ[key]
        import hashlib
        import pickle
        S = self.suite(suite_name)
        if select is not None:
            cands = [x for x in S.by_generic.get(generic_path, []) if select in x['path']]
            if len(cands) != 1:
                raise KeyError('%s: %d instances of %s matching %s' % (suite_name, len(cands), generic_path, select))
            b = cands[0]
        else:
            b = S.find(generic_path)
        if params is None:
            ps = [Sym(l['name'] or 'arg%d' % i) for i, l in enumerate(b['locals'][1:1 + b['argc']], 1)]
        else:
            ps = list(params)
        # summaries are shared between the check processes of one sweep (keyed by facts dir, interpreter sources and the query)
        cdir = os.path.join(self.dir, 'summ-' + self._code_hash())
        ck = hashlib.sha256(repr((suite_name, generic_path, select, sorted(kw.items()), ps)).encode()).hexdigest()[:32]
        cpath = os.path.join(cdir, ck + '.pkl')
        summ = None
        if os.path.exists(cpath) and not os.environ.get('OPQ_NO_SUMMARY_CACHE'):
            try:
                with open(cpath, 'rb') as f:
                    summ = pickle.load(f)
                summ.body = b
                terms.use_suite(S.name)
                for t, n in summ.len_log:
                    terms.note_len(t, n)
            except Exception:
                summ = None
        if summ is None:
            terms.LEN_LOG = []
            try:
                blown = getattr(self, '_blown', None)
                if blown is None:
                    blown = self._blown = set()
                if generic_path in blown:
                    # the same function already exhausted the exploration budget in another suite / configuration of this run
                    I = interp.Interp(S, adts=self.adts)
                    I.notes.append('STOP: exploration budget exceeded for this function earlier in this run')
                    outs = []
                else:
                    I, outs = interp.summarize(S, b, ps, adts=self.adts, **kw)
                    if any('budget exceeded' in n for n in I.notes):
                        blown.add(generic_path)
                summ = Summary(b, I, outs, ps)
                summ.len_log = terms.LEN_LOG
            finally:
                terms.LEN_LOG = None
            try:
                os.makedirs(cdir, exist_ok=True)
                tmp = cpath + '.%d.tmp' % os.getpid()
                body = summ.body
                summ.body = None
                with open(tmp, 'wb') as f:
                    pickle.dump(summ, f, protocol=pickle.HIGHEST_PROTOCOL)
                summ.body = body
                os.replace(tmp, cpath)
            except Exception:
                summ.body = b
        self._summ[key] = summ
        return summ


def rel(span):
    """'/repo/src/x.rs:12:3!' -> 'src/x.rs:12'"""
    if not span:
        return ''
    s = span.rstrip('!')
    parts = s.split(':')
    p = parts[0]
    if p.startswith(facts.REPO + '/'):
        p = p[len(facts.REPO) + 1:]
    return '%s:%s' % (p, parts[1]) if len(parts) > 1 else p


def body_loc(body):
    return rel(body.get('span', ''))


class Report:
    """collects obligations; decides exit status; writes evidence"""

    def __init__(self, prop, tier, explanation, assumptions):
        self.prop = prop
        self.tier = tier
        self.explanation = explanation
        self.assumptions = list(assumptions)
        self.obligations = []     # dicts: rule, instance, suite, ok, detail, where
        self.samples = []
        self.t0 = time.time()
        self.floors = []
        self.extra = {}
        self.machinery_errors = []

    def ob(self, rule, instance, ok, detail='', where='', suite=None, sample=None):
        self.obligations.append({'rule': rule, 'instance': instance, 'suite': suite, 'ok': bool(ok),
                                 'detail': detail if isinstance(detail, str) else show(detail), 'where': where})
        if sample is not None and len(self.samples) < 60:
            self.samples.append({'rule': rule, 'instance': instance, 'suite': suite, 'term': sample if isinstance(sample, str) else show(sample)[:1500]})
        return bool(ok)

    def floor(self, rule, what, found, minimum):
        """a rule that matches fewer instances than were confirmed by hand must not pass"""
        self.floors.append({'rule': rule, 'what': what, 'found': found, 'floor': minimum})
        self.ob(rule, 'floor:' + what, found >= minimum,
                'instances found %d < floor %d (anchor missing: the rule would pass vacuously)' % (found, minimum) if found < minimum else 'instances %d >= floor %d' % (found, minimum))

    def finish(self):
        if terms.LEN_CONFLICTS:
            raise facts.MachineryError('inconsistent byte lengths recorded for one term: %s' % terms.LEN_CONFLICTS[:3])
        known = load_known_findings()
        fails = {}
        for o in self.obligations:
            if not o['ok']:
                key = '%s/%s/%s' % (self.prop, o['rule'], o['instance'])
                fails.setdefault(key, []).append(o)
        os.makedirs(os.path.join(EVID, 'violations'), exist_ok=True)
        viol_lines = []
        known_hit = []
        for key, obs in sorted(fails.items()):
            kf = known.get(key)
            if kf is not None and kf.get('status', 'open') == 'open':
                print('KNOWN-FINDING: property=%s %s: %s' % (self.prop, key, kf.get('what', obs[0]['detail'])))
                known_hit.append(key)
                continue
            slug = re.sub(r'[^A-Za-z0-9_.-]+', '_', key)[:150]
            path = os.path.join(EVID, 'violations', slug + '.json')
            with open(path, 'w') as f:
                json.dump({'property': self.prop, 'key': key, 'rule': obs[0]['rule'], 'instance': obs[0]['instance'],
                           'suites': sorted(set(o['suite'] for o in obs if o['suite'])),
                           'where': obs[0]['where'], 'detail': obs[0]['detail'],
                           'all': obs[:40]}, f, indent=1)
            print('VIOLATION property=%s replay=%s' % (self.prop, path))
            print('  rule %s instance %s at %s: %s' % (obs[0]['rule'], obs[0]['instance'], obs[0]['where'], obs[0]['detail'][:600]))
            viol_lines.append(key)
        n_ob = len(self.obligations)
        n_ok = sum(1 for o in self.obligations if o['ok'])
        distinct = len(set((o['rule'], o['instance']) for o in self.obligations))
        ev = {
            'property_id': self.prop,
            'tier': self.tier,
            'seed': int(os.environ.get('VERIF_SEED', '0') or 0),
            'level': 'other',
            'coverage': {
                'explanation': self.explanation,
                'obligations': n_ob,
                'discharged': n_ok,
                'evaluations': max(n_ob, 1),
                'distinct_nontrivial': distinct,
                'rule': 'one evaluation = one rule instance (rule x anchor x suite) decided on the current tree; distinct = distinct (rule, instance) keys',
                'samples': self.samples[:40] or [{'note': 'no samples'}],
                'exhaustive': True,
                'floors': self.floors,
                'known_findings_hit': known_hit,
                'failed': sorted(fails.keys()),
                'by_rule': _by_rule(self.obligations),
            },
            'assumptions': self.assumptions,
            'wall_s': round(time.time() - self.t0, 2),
            'violations': len(viol_lines),
        }
        ev['coverage'].update(self.extra)
        os.makedirs(EVID, exist_ok=True)
        with open(os.path.join(EVID, self.prop + '.json'), 'w') as f:
            json.dump(ev, f, indent=1)
        print('%s: %d obligations, %d discharged, %d violations, %d known findings (%.1fs)' % (
            self.prop, n_ob, n_ok, len(viol_lines), len(known_hit), time.time() - self.t0))
        return 1 if viol_lines else 0


def _by_rule(obs):
    d = {}
    for o in obs:
        r = d.setdefault(o['rule'], {'instances': 0, 'ok': 0, 'obligations': []})
        r['instances'] += 1
        r['ok'] += int(o['ok'])
        # the distinct obligation texts of the rule (what it demands), for the rule index in DESIGN.md
        txt = re.sub(r'\[[^\]]*\]$', '', o['instance']).strip()
        if not txt.startswith('floor:') and txt not in r['obligations'] and len(r['obligations']) < 6:
            r['obligations'].append(txt[:200])
    return d


def load_known_findings():
    p = os.path.join(VERIF, 'known_findings.json')
    if not os.path.exists(p):
        return {}
    with open(p) as f:
        data = json.load(f)
    out = {}
    for e in data.get('findings', []):
        out[e['key']] = e
    return out
