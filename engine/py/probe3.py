import sys, json, collections, time
sys.path.insert(0, '/verif/engine/py')
import core
from terms import *
from rules.common import *
ctx = core.Ctx('quick')
sn, which = sys.argv[1], sys.argv[2]
s = api_summary(ctx, sn, which)
print('paths', len(s.paths), 'ok', len(s.ok_paths), s.notes, s.unmodelled)
idx = int(sys.argv[3]) if len(sys.argv) > 3 else 0
sel = s.ok_paths if (len(sys.argv) <= 4) else s.err_paths
p = sel[idx]
print('RESULT', show(p.value)[:int(sys.argv[5]) if len(sys.argv)>5 else 1500])
for i, e in enumerate(p.events):
    if e[0] in ('assert','construct','slice','exact-len'): continue
    print(i, e[0], ' | '.join((show(x)[:260] if isinstance(x, tuple) and x and isinstance(x[0], str) else str(x)[:260]) for x in e[1:]))
