"""Term domain: immutable tuples.  See DESIGN.md section 2.2 / 3.2.

kinds:
 ('int', n) ('bytes', b) ('sym', name) ('unit',) ('unk', tag)
 ('fld', v, name)            field of a symbolic value
 ('as', v, variant)          symbolic value viewed as an enum variant
 ('app', f, (args...))       modelled or uninterpreted function
 ('cat', (parts...))         byte concatenation (flattened, literals merged)
 ('adt', path, variant, ((name, v)...))
 ('tuple', vs) ('array', vs) ('list', vs)
 ('ref', addr, steps)        pointer into the abstract store
 ('closure', inst_id, upvars) ('fnitem', key)
 ('zero', n)                 n zero bytes
 ('hasher', parts) ('mac', key, parts) ('hkdf', prk) ('extract', salt, parts)
 ('biter', content)          byte-wise iterator over `content`
 ('bitermut', ref)           byte-wise mutable iterator over the referenced cell
 ('zip', a, b, done)
 ('discr', v)
"""
import re

UNIT = ('unit',)


def Int(n):
    return ('int', int(n))


def Sym(n):
    return ('sym', n)


def App(f, *a):
    return ('app', f, tuple(a))


def Bytes(b):
    return ('bytes', bytes(b))


def Adt(adt, variant, fields):
    return ('adt', adt, variant, tuple(fields))


RESULT = 'core::result::Result'
OPTION = 'core::option::Option'
CF = 'core::ops::control_flow::ControlFlow'


def mk(adt, variant, payload=None):
    return Adt(adt, variant, [('0', payload)] if payload is not None else [])


def Ok(v):
    return mk(RESULT, 'Ok', v)


def Err(v):
    return mk(RESULT, 'Err', v)


def Some(v):
    return mk(OPTION, 'Some', v)


NONE = mk(OPTION, 'None')

# length side table: term -> int, filled from destination types (see interp).  One table per suite
# (`use_suite`); symbolic parameters are only entered for the duration of one summary.
LEN = {}
_LENS = {}
LEN_CONFLICTS = []
LEN_LOG = None      # when a list: every (term, n) learned is appended (so that cached summaries can replay it)


def use_suite(name):
    global LEN
    LEN = _LENS.setdefault(name, {})


def note_len(t, n):
    if t is None or n is None:
        return
    if t[0] == 'sym':
        return
    if t[0] == 'app' and t[1] in ('Slice', 'SliceMut'):
        return      # the length of a slice is structural (or unknown); never learn it from a destination type
    old = LEN.get(t)
    if LEN_LOG is not None:
        LEN_LOG.append((t, n))
    if old is None:
        LEN[t] = n
    elif old != n:
        LEN_CONFLICTS.append((show(t)[:200], old, n))


def Cat(parts):
    out = []
    for p in parts:
        if p is None:
            out.append(('unk', 'none-part'))
        elif p[0] == 'cat':
            out.extend(p[1])
        elif p == ('bytes', b''):
            pass
        elif p[0] == 'zero' and p[1] == 0:
            pass
        else:
            out.append(p)
    m = []
    for p in out:
        if m and m[-1][0] == 'bytes' and p[0] == 'bytes':
            m[-1] = ('bytes', m[-1][1] + p[1])
        else:
            m.append(p)
    # re-join contiguous slices of the same base: Slice(X,a,b) ++ Slice(X,b,c) = Slice(X,a,c)
    j = []
    for p in m:
        if j and is_slice(p) and is_slice(j[-1]) and j[-1][2][0] == p[2][0] and j[-1][2][2] == p[2][1] \
                and p[2][1][0] == 'int':
            j[-1] = mk_slice(p[2][0], j[-1][2][1], p[2][2])
        else:
            j.append(p)
    m = j
    # xor distributes over concatenation: xor(a1,b1) ++ xor(a2,b2) = xor(a1 ++ a2, b1 ++ b2) when the parts have equal lengths
    if sum(1 for p in m if p[0] == 'app' and p[1] == 'xor') >= 2:
        j = []
        for p in m:
            if j and p[0] == 'app' and p[1] == 'xor' and j[-1][0] == 'app' and j[-1][1] == 'xor':
                a1, b1 = j[-1][2]
                a2, b2 = p[2]
                if tlen(a1) is not None and tlen(a1) == tlen(b1) and tlen(a2) is not None and tlen(a2) == tlen(b2):
                    j[-1] = ('app', 'xor', (Cat([a1, a2]), Cat([b1, b2])))
                    continue
            j.append(p)
        m = j
    if not m:
        return ('bytes', b'')
    if len(m) == 1:
        return m[0]
    return ('cat', tuple(m))


def is_slice(t):
    return t is not None and t[0] == 'app' and t[1] == 'Slice'


def tlen(t):
    """byte length of a term when known, else None"""
    if t is None:
        return None
    k = t[0]
    if k == 'bytes':
        return len(t[1])
    if k == 'zero':
        return t[1]
    if k == 'cat':
        s = 0
        for p in t[1]:
            l = tlen(p)
            if l is None:
                return None
            s += l
        return s
    if k == 'app':
        if t[1] == 'Slice' and t[2][1][0] == 'int' and t[2][2][0] == 'int':
            return t[2][2][1] - t[2][1][1]
        if t[1] == 'xor':
            return tlen(t[2][0])
        if t[1] == 'I2OSP' and t[2][1][0] == 'int':
            return t[2][1][1]
        if t[1] in ('Expand',) and t[2][2][0] == 'int':
            return t[2][2][1]
        if t[1] == 'Rng' and len(t[2]) > 2 and t[2][2][0] == 'int':
            return t[2][2][1]
    return LEN.get(t)


def mk_slice(base, a, b):
    """Slice(base, a, b) with a, b terms (Int or symbolic); resolves through Cat/Slice when possible"""
    if base is None:
        return App('Slice', ('unk', 'none'), a, b)
    if base[0] == 'app' and base[1] == 'Slice' and b == App('len', base) and a[0] == 'int' and base[2][1][0] == 'int':
        # base[a..] where base = X[a0..b0]  ==>  X[a0+a..b0]
        return mk_slice(base[2][0], Int(base[2][1][1] + a[1]), base[2][2])
    if a[0] == 'int' and b[0] == 'int':
        lo, hi = a[1], b[1]
        L = tlen(base)
        if L is not None and lo == 0 and hi == L:
            return base
        if base[0] == 'app' and base[1] == 'Slice' and base[2][1][0] == 'int':
            off = base[2][1][1]
            return mk_slice(base[2][0], Int(off + lo), Int(off + hi))
        if base[0] == 'bytes' and hi <= len(base[1]):
            return Bytes(base[1][lo:hi])
        if base[0] == 'zero' and hi <= base[1]:
            return ('zero', hi - lo)
        if base[0] == 'cat':
            # try to resolve on part boundaries
            pos = 0
            parts = []
            ok = True
            for p in base[1]:
                l = tlen(p)
                if l is None:
                    ok = False
                    break
                s, e = pos, pos + l
                if e <= lo or s >= hi:
                    pass
                elif s >= lo and e <= hi:
                    parts.append(p)
                else:
                    parts.append(mk_slice(p, Int(max(lo, s) - s), Int(min(hi, e) - s)))
                pos = e
            if ok and pos >= hi:
                return Cat(parts)
    return App('Slice', base, a, b)


PARTIAL_APPS = ('Slice', 'SliceMut', 'len', 'index', 'first', 'narrow', 'try_into_array', 'try_into_int')


def mentions(t, sub):
    """does `sub` occur anywhere in `t` (also under partial uses such as Slice/len)?"""
    return contains(t, sub, True)


def contains(t, sub, partial=False):
    """does `sub` occur in `t` as a whole value?  A value that is only sliced, indexed or measured
    (`Slice(x,..)`, `len(x)`) does not count (DESIGN section 8, soundness direction)."""
    if t is None:
        return False
    if t == sub:
        return True
    k = t[0]
    if k == 'app' and t[1] in PARTIAL_APPS and not partial:
        return False
    if k in ('int', 'bytes', 'sym', 'unit', 'unk', 'zero'):
        return False
    if k in ('fld', 'as', 'discr'):
        return contains(t[1], sub, partial)
    if k == 'app':
        return any(contains(a, sub, partial) for a in t[2])
    if k in ('cat', 'tuple', 'array', 'list', 'hasher'):
        return any(contains(a, sub, partial) for a in t[1])
    if k == 'adt':
        return any(contains(v, sub, partial) for _, v in t[3])
    if k == 'mac':
        return contains(t[1], sub, partial) or any(contains(a, sub, partial) for a in t[2])
    if k == 'extract':
        return contains(t[1], sub, partial) or any(contains(a, sub, partial) for a in t[2])
    if k == 'hkdf':
        return contains(t[1], sub, partial)
    if k == 'closure':
        return any(contains(a, sub, partial) for a in t[2])
    if k in ('biter',):
        return contains(t[1], sub, partial)
    return False


def subterms(t, pred, out=None):
    """collect sub-terms satisfying pred"""
    if out is None:
        out = []
    if t is None:
        return out
    if pred(t):
        out.append(t)
    k = t[0]
    if k in ('fld', 'as', 'discr', 'hkdf', 'biter'):
        subterms(t[1], pred, out)
    elif k == 'app':
        for a in t[2]:
            subterms(a, pred, out)
    elif k in ('cat', 'tuple', 'array', 'list', 'hasher'):
        for a in t[1]:
            subterms(a, pred, out)
    elif k == 'adt':
        for _, v in t[3]:
            subterms(v, pred, out)
    elif k in ('mac', 'extract'):
        subterms(t[1], pred, out)
        for a in t[2]:
            subterms(a, pred, out)
    elif k == 'closure':
        for a in t[2]:
            subterms(a, pred, out)
    return out


def rewrite(t, f):
    """bottom-up rewriting: f(term) -> term"""
    if t is None:
        return None
    k = t[0]
    if k in ('fld', 'as', 'discr'):
        n = (k, rewrite(t[1], f)) + t[2:]
    elif k == 'app':
        n = ('app', t[1], tuple(rewrite(a, f) for a in t[2]))
        if t[1] == 'Slice':
            n = mk_slice(n[2][0], n[2][1], n[2][2])
    elif k == 'cat':
        n = Cat([rewrite(a, f) for a in t[1]])
    elif k in ('tuple', 'array', 'list', 'hasher'):
        n = (k, tuple(rewrite(a, f) for a in t[1]))
    elif k == 'adt':
        n = ('adt', t[1], t[2], tuple((nm, rewrite(v, f)) for nm, v in t[3]))
    elif k in ('mac', 'extract'):
        n = (k, rewrite(t[1], f), tuple(rewrite(a, f) for a in t[2]))
    elif k == 'hkdf':
        n = (k, rewrite(t[1], f))
    elif k == 'closure':
        n = (k, t[1], tuple(rewrite(a, f) for a in t[2]))
    else:
        n = t
    return f(n)


def show(v, d=0):
    if v is None:
        return 'UNINIT'
    if d > 40:
        return '...'
    if not isinstance(v, tuple) or not v or not isinstance(v[0], str):
        return repr(v)[:200]
    k = v[0]
    if k == 'int':
        return str(v[1])
    if k == 'bytes':
        try:
            s = v[1].decode('ascii')
            if all(32 <= ord(c) < 127 for c in s):
                return 'b"%s"' % s
        except Exception:
            pass
        return 'x"%s"' % v[1].hex()
    if k == 'sym':
        return v[1]
    if k == 'fld':
        return '%s.%s' % (show(v[1], d + 1), v[2])
    if k == 'as':
        return '(%s as %s)' % (show(v[1], d + 1), v[2])
    if k == 'app':
        return '%s(%s)' % (v[1], ', '.join(show(a, d + 1) for a in v[2]))
    if k == 'cat':
        return ' || '.join(show(a, d + 1) for a in v[1])
    if k == 'adt':
        short = v[1].split('::')[-1]
        if not v[3]:
            return '%s::%s' % (short, v[2])
        return '%s::%s{%s}' % (short, v[2], ', '.join('%s: %s' % (n, show(x, d + 1)) for n, x in v[3]))
    if k == 'tuple':
        return '(%s)' % ', '.join(show(a, d + 1) for a in v[1])
    if k == 'array':
        return '[%s]' % ', '.join(show(a, d + 1) for a in v[1])
    if k == 'list':
        return 'List[%s]' % ', '.join(show(a, d + 1) for a in v[1])
    if k == 'ref':
        return '&cell%d%s' % (v[1], ''.join('.%s' % (p[1],) for p in v[2]))
    if k == 'hasher':
        return 'Hasher[%s]' % ' || '.join(show(a, d + 1) for a in v[1])
    if k == 'mac':
        return 'MacState[key=%s; %s]' % (show(v[1], d + 1), ' || '.join(show(a, d + 1) for a in v[2]))
    if k == 'hkdf':
        return 'Hkdf[prk=%s]' % show(v[1], d + 1)
    if k == 'extract':
        return 'HkdfExtract[salt=%s; %s]' % (show(v[1], d + 1), ' || '.join(show(a, d + 1) for a in v[2]))
    if k == 'discr':
        return 'discr(%s)' % show(v[1], d + 1)
    if k == 'unit':
        return '()'
    if k == 'closure':
        return 'closure#%s' % (v[1],)
    if k == 'fnitem':
        return 'fn<%s>' % v[1]
    if k == 'zero':
        return 'Zero(%s)' % v[1]
    if k == 'unk':
        return 'Unk#%s' % (v[1],)
    if k == 'biter':
        return 'bytes_of(%s)' % show(v[1], d + 1)
    return str(v)


def strip_generics(p):
    out = []
    depth = 0
    for c in p:
        if c == '<':
            depth += 1
        elif c == '>':
            depth -= 1
        elif depth == 0:
            out.append(c)
    s = ''.join(out).replace('::::', '::')
    while s.endswith('::'):
        s = s[:-2]
    return s


_GA = re.compile(r'^&?(?:mut )?(?:generic_array::)?GenericArray<u8, U(\d+)>$')
_ARR = re.compile(r'^&?(?:mut )?\[u8; (\d+)\]$')


def ty_bytes_len(ty):
    """length of a byte-array type from its printed form, or None"""
    if not ty:
        return None
    m = _GA.match(ty) or _ARR.match(ty)
    return int(m.group(1)) if m else None


def split_generic_args(t):
    """'Foo<A, B<C, D>>' -> ('Foo', ['A', 'B<C, D>'])"""
    i = t.find('<')
    if i < 0 or not t.endswith('>'):
        return t, []
    head = t[:i]
    inner = t[i + 1:-1]
    args = []
    depth = 0
    cur = ''
    for c in inner:
        if c in '<([':
            depth += 1
        elif c in '>)]':
            depth -= 1
        if c == ',' and depth == 0:
            args.append(cur.strip())
            cur = ''
        else:
            cur += c
    if cur.strip():
        args.append(cur.strip())
    return head, args
