//! Deliberately broken miniatures (and correct twins) for the rules whose expected number of findings on
//! the repository is ZERO: every run analyses this crate with the same driver and the same scanning
//! code, and the check refuses to give a verdict (exit 2) unless each `*_bad` item is reported and each
//! `*_good` twin is silent.  Nothing here is ever executed.
#![allow(unused, clippy::all)]

use opaque_ke::rand::{CryptoRng, RngCore};

// ---- L-PURE: ambient entropy / time must be found in the reachable set -----------------------------
pub fn root_fx__entropy_bad(buf: &mut [u8]) {
    use rand::rngs::OsRng;
    OsRng.fill_bytes(buf);
}
#[derive(Clone)]
pub struct FxRng;
impl RngCore for FxRng {
    fn next_u32(&mut self) -> u32 {
        0
    }
    fn next_u64(&mut self) -> u64 {
        0
    }
    fn fill_bytes(&mut self, _d: &mut [u8]) {}
    fn try_fill_bytes(&mut self, _d: &mut [u8]) -> Result<(), opaque_ke::rand::Error> {
        Ok(())
    }
}
impl CryptoRng for FxRng {}
pub fn root_fx__entropy_good(rng: &mut FxRng, buf: &mut [u8]) {
    rng.fill_bytes(buf);
}
pub fn root_fx__time_bad() -> u64 {
    std::time::SystemTime::now().duration_since(std::time::UNIX_EPOCH).map(|d| d.as_secs()).unwrap_or(0)
}

// ---- R12.6: narrowing cast of a run-time length -----------------------------------------------------
pub fn root_fx__cast_bad(input: &[u8]) -> [u8; 2] {
    (input.len() as u16).to_be_bytes()
}
pub fn root_fx__cast_good(input: &[u8]) -> Option<[u8; 2]> {
    u16::try_from(input.len()).ok().map(|n| n.to_be_bytes())
}

// ---- R12.7: a fallible call whose result is never read ----------------------------------------------
fn fallible(x: usize) -> Result<usize, ()> {
    if x > 3 { Err(()) } else { Ok(x) }
}
pub fn root_fx__drop_bad(x: usize) -> usize {
    let _ = fallible(x);
    x
}
pub fn root_fx__drop_good(x: usize) -> Result<usize, ()> {
    let y = fallible(x)?;
    Ok(y)
}

// ---- statics / unsafe (generic facts) ---------------------------------------------------------------
pub static mut FX_COUNTER_BAD: u64 = 0;
pub static FX_LABEL_GOOD: &[u8] = b"label";
pub static FX_CELL_BAD: std::sync::atomic::AtomicU64 = std::sync::atomic::AtomicU64::new(0);
pub fn fx_unsafe_bad(p: *const u8) -> u8 {
    unsafe { *p }
}

// ---- L-CLONE: a `Clone` impl that is not field-wise identity ------------------------------------------
pub struct FxCloneGood {
    pub a: [u8; 4],
    pub b: Option<&'static [u8]>,
}
impl Clone for FxCloneGood {
    fn clone(&self) -> Self {
        Self { a: self.a, b: self.b }
    }
}
pub struct FxCloneDropsOption {
    pub a: [u8; 4],
    pub b: Option<&'static [u8]>,
}
impl Clone for FxCloneDropsOption {
    fn clone(&self) -> Self {
        Self { a: self.a, b: None }
    }
}
pub struct FxCloneResetsBytes {
    pub a: [u8; 4],
    pub k: [u8; 4],
}
impl Clone for FxCloneResetsBytes {
    fn clone(&self) -> Self {
        Self { a: self.a, k: Default::default() }
    }
}
pub fn root_fx__clones(x: &FxCloneGood, y: &FxCloneDropsOption, z: &FxCloneResetsBytes) {
    let _ = (x.clone(), y.clone(), z.clone());
}

// ---- R17.5: drawing from a copy of the caller's generator (the caller's generator is not advanced) ------
pub fn root_fx__rngclone_bad(rng: &mut FxRng, buf: &mut [u8]) {
    let mut staged = rng.clone();
    staged.fill_bytes(buf);
}
pub fn root_fx__rngclone_good(rng: &mut FxRng, buf: &mut [u8]) {
    rng.fill_bytes(buf);
}
