//! Root for the crate's own `impl voprf::Group for opaque_ke::Ristretto255`: a forwarding layer for users who define
//! their own `voprf::CipherSuite` over it.  None of the 20 suites of the main harness instantiates it (their OPRF
//! group is `voprf::Ristretto255` itself), and naming `voprf::Group` needs a direct dependency on `voprf`, which
//! would change how rustc prints every voprf path in the main harness's facts - hence a crate of its own.
//! Nothing here is ever executed.
#![allow(unused)]

use opaque_ke::rand::{CryptoRng, Error, RngCore};

#[derive(Clone, Debug, Default)]
pub struct TapeRng;
impl RngCore for TapeRng {
    fn next_u32(&mut self) -> u32 {
        0
    }
    fn next_u64(&mut self) -> u64 {
        0
    }
    fn fill_bytes(&mut self, _d: &mut [u8]) {}
    fn try_fill_bytes(&mut self, _d: &mut [u8]) -> Result<(), Error> {
        Ok(())
    }
}
impl CryptoRng for TapeRng {}

/// R11.D / R09.D: every method forwards to the same method of `voprf::Ristretto255`.
pub fn root_vgroup__all(b: &[u8], rng: &mut TapeRng) {
    use voprf::Group as VG;
    type G = opaque_ke::Ristretto255;
    type H = sha2::Sha512;
    let _ = <G as VG>::hash_to_curve::<H>(&[b], &[b]);
    let _ = <G as VG>::hash_to_scalar::<H>(&[b], &[b]);
    let _ = <G as VG>::base_elem();
    let id = <G as VG>::identity_elem();
    let _ = <G as VG>::serialize_elem(id);
    let _ = <G as VG>::deserialize_elem(b);
    let r = <G as VG>::random_scalar(rng);
    let _ = <G as VG>::invert_scalar(r);
    let _ = <G as VG>::is_zero_scalar(r);
    let _ = <G as VG>::serialize_scalar(r);
    let _ = <G as VG>::deserialize_scalar(b);
}
