//! Type-level witnesses: `compile_fail` doc-tests, each paired with a compiling twin that differs
//! only by the offending line (a witness whose path is merely wrong would also "fail to compile").
//! Run by the thorough tier with `cargo +nightly test --doc --offline` (stable ignores the error code).
//! Twins are `no_run`: they are type-checked, never executed.

/// W-MOVE-SERVER (C03, C07): `ServerLogin::finish` consumes the pending login state, so one state
/// cannot be offered a second finalization.
///
/// ```compile_fail,E0382
/// use opaque_ke::{CredentialFinalization, ServerLogin};
/// use suites::SR255R255;
/// fn f(state: ServerLogin<SR255R255>, m1: CredentialFinalization<SR255R255>, m2: CredentialFinalization<SR255R255>) {
///     let _ = state.finish(m1);
///     let _ = state.finish(m2); // use of moved value
/// }
/// ```
pub struct WMoveServer;

/// Twin of W-MOVE-SERVER: cloning first compiles.
///
/// ```no_run
/// use opaque_ke::{CredentialFinalization, ServerLogin};
/// use suites::SR255R255;
/// fn f(state: ServerLogin<SR255R255>, m1: CredentialFinalization<SR255R255>, m2: CredentialFinalization<SR255R255>) {
///     let _ = state.clone().finish(m1);
///     let _ = state.finish(m2);
/// }
/// ```
pub struct WMoveServerTwin;

/// W-MOVE-CLIENT (C07): `ClientLogin::finish` consumes the client's in-flight state.
///
/// ```compile_fail,E0382
/// use opaque_ke::{ClientLogin, ClientLoginFinishParameters, CredentialResponse};
/// use suites::SP256C25519;
/// fn f(state: ClientLogin<SP256C25519>, r1: CredentialResponse<SP256C25519>, r2: CredentialResponse<SP256C25519>) {
///     let _ = state.finish(b"pw", r1, ClientLoginFinishParameters::default());
///     let _ = state.finish(b"pw", r2, ClientLoginFinishParameters::default()); // use of moved value
/// }
/// ```
pub struct WMoveClient;

/// Twin of W-MOVE-CLIENT.
///
/// ```no_run
/// use opaque_ke::{ClientLogin, ClientLoginFinishParameters, CredentialResponse};
/// use suites::SP256C25519;
/// fn f(state: ClientLogin<SP256C25519>, r1: CredentialResponse<SP256C25519>, r2: CredentialResponse<SP256C25519>) {
///     let _ = state.clone().finish(b"pw", r1, ClientLoginFinishParameters::default());
///     let _ = state.finish(b"pw", r2, ClientLoginFinishParameters::default());
/// }
/// ```
pub struct WMoveClientTwin;

/// W-NEWTYPE-PK (C11): a `PublicKey` cannot be built from a raw group element outside the crate
/// (its field is private); the only way in is the validating decoder.
///
/// ```compile_fail,E0423
/// use opaque_ke::keypair::PublicKey;
/// use opaque_ke::Ristretto255;
/// fn f(p: <Ristretto255 as opaque_ke::key_exchange::group::KeGroup>::Pk) -> PublicKey<Ristretto255> {
///     PublicKey::<Ristretto255>(p) // private tuple-struct constructor
/// }
/// ```
pub struct WNewtypePk;

/// Twin of W-NEWTYPE-PK: going through `deserialize` compiles.
///
/// ```no_run
/// use opaque_ke::keypair::PublicKey;
/// use opaque_ke::Ristretto255;
/// fn f(bytes: &[u8]) -> Option<PublicKey<Ristretto255>> {
///     PublicKey::<Ristretto255>::deserialize(bytes).ok()
/// }
/// ```
pub struct WNewtypePkTwin;

/// W-NEWTYPE-SK (C11): the same for `PrivateKey`.
///
/// ```compile_fail,E0423
/// use opaque_ke::keypair::PrivateKey;
/// use opaque_ke::Ristretto255;
/// fn f(s: <Ristretto255 as opaque_ke::key_exchange::group::KeGroup>::Sk) -> PrivateKey<Ristretto255> {
///     PrivateKey::<Ristretto255>(s) // private tuple-struct constructor
/// }
/// ```
pub struct WNewtypeSk;

/// Twin of W-NEWTYPE-SK.
///
/// ```no_run
/// use opaque_ke::keypair::{PrivateKey, SecretKey};
/// use opaque_ke::Ristretto255;
/// fn f(bytes: &[u8]) -> Option<PrivateKey<Ristretto255>> {
///     PrivateKey::<Ristretto255>::deserialize(bytes).ok()
/// }
/// ```
pub struct WNewtypeSkTwin;

/// W-STATE-PRIVATE (C03): the pending server state's fields are not writable from outside, so the
/// comparison in `finish` is always against what `start` stored.
///
/// ```compile_fail,E0616
/// use opaque_ke::ServerLogin;
/// use suites::SR255R255;
/// fn f(state: ServerLogin<SR255R255>) {
///     let _ = state.ke2_state; // private field
/// }
/// ```
pub struct WStatePrivate;

/// Twin of W-STATE-PRIVATE: the public encoder is the way to look at a state.
///
/// ```no_run
/// use opaque_ke::ServerLogin;
/// use suites::SR255R255;
/// fn f(state: ServerLogin<SR255R255>) {
///     let _ = state.serialize();
/// }
/// ```
pub struct WStatePrivateTwin;
