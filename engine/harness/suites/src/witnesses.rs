//! Type-level witnesses (compile_fail doc-tests with compiling twins) — filled in later.
