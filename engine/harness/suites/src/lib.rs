//! Harness for the static analyses: names every public API entry of opaque-ke for each of the
//! 20 (OPRF suite x key-exchange group) combinations so that the fact extractor can walk the
//! monomorphic instances.  Nothing here is ever executed.
#![allow(clippy::all, unused)]

use generic_array::GenericArray;
use opaque_ke::errors::InternalError;
use opaque_ke::key_exchange::group::KeGroup;
use opaque_ke::keypair::{KeyPair, PrivateKey, PublicKey, SecretKey};
use opaque_ke::rand::{CryptoRng, Error, RngCore};
use opaque_ke::*;

pub mod witnesses;

/// Stand-in for the caller's random generator.
#[derive(Clone, Debug, Default)]
pub struct TapeRng;
impl RngCore for TapeRng {
    fn next_u32(&mut self) -> u32 {
        0
    }
    fn next_u64(&mut self) -> u64 {
        0
    }
    fn fill_bytes(&mut self, _d: &mut [u8]) {}
    fn try_fill_bytes(&mut self, _d: &mut [u8]) -> Result<(), Error> {
        Ok(())
    }
}
impl CryptoRng for TapeRng {}

/// Stand-in for an externally held key (HSM).  Its serialised form (a key-store handle, say) is
/// deliberately *not* the length of an in-memory scalar of any supported group (32..66 bytes), so
/// that length arithmetic which confuses `SecretKey::Len` with `KeGroup::SkLen` is visible.
pub struct RemoteKey<KG: KeGroup>(PrivateKey<KG>);
impl<KG: KeGroup> Clone for RemoteKey<KG> {
    fn clone(&self) -> Self {
        Self(self.0.clone())
    }
}
#[derive(Debug)]
pub struct RemoteError;
impl<KG: KeGroup> SecretKey<KG> for RemoteKey<KG> {
    type Error = RemoteError;
    type Len = generic_array::typenum::U80;
    #[inline(never)]
    fn diffie_hellman(&self, pk: PublicKey<KG>) -> Result<GenericArray<u8, KG::PkLen>, InternalError<Self::Error>> {
        Err(InternalError::Custom(RemoteError))
    }
    #[inline(never)]
    fn public_key(&self) -> Result<PublicKey<KG>, InternalError<Self::Error>> {
        Err(InternalError::Custom(RemoteError))
    }
    #[inline(never)]
    fn serialize(&self) -> GenericArray<u8, Self::Len> {
        GenericArray::default()
    }
    #[inline(never)]
    fn deserialize(input: &[u8]) -> Result<Self, InternalError<Self::Error>> {
        Err(InternalError::Custom(RemoteError))
    }
}

macro_rules! suite {
    ($name:ident, $m:ident, $dec:ident, $flow:ident, $keys:ident, $remote:ident, $oprf:ty, $ke:ty, $ksf:ty) => {
        pub struct $name;
        impl CipherSuite for $name {
            type OprfCs = $oprf;
            type KeGroup = $ke;
            type KeyExchange = key_exchange::tripledh::TripleDh;
            type Ksf = $ksf;
        }
        pub fn $dec(b: &[u8]) {
            let _ = RegistrationRequest::<$name>::deserialize(b).map(|x| x.serialize());
            let _ = RegistrationResponse::<$name>::deserialize(b).map(|x| x.serialize());
            let _ = RegistrationUpload::<$name>::deserialize(b).map(|x| x.serialize());
            let _ = CredentialRequest::<$name>::deserialize(b).map(|x| x.serialize());
            let _ = CredentialResponse::<$name>::deserialize(b).map(|x| x.serialize());
            let _ = CredentialFinalization::<$name>::deserialize(b).map(|x| x.serialize());
            let _ = ServerRegistration::<$name>::deserialize(b).map(|x| x.serialize());
            let _ = ServerSetup::<$name>::deserialize(b).map(|x| x.serialize());
            let _ = ClientRegistration::<$name>::deserialize(b).map(|x| x.serialize());
            let _ = ClientLogin::<$name>::deserialize(b).map(|x| x.serialize());
            let _ = ServerLogin::<$name>::deserialize(b).map(|x| x.serialize());
        }
        /// Honest registration followed by an honest login, every role with its own parameter
        /// (this body is itself interpreted by the C01 composite rule).
        pub fn $flow(
            pw: &[u8],
            cred: &[u8],
            ctx: Option<&[u8]>,
            idu: Option<&[u8]>,
            ids: Option<&[u8]>,
            rng: &mut TapeRng,
            ksf: Option<&$ksf>,
        ) -> Option<(
            ClientRegistrationFinishResult<$name>,
            ClientLoginFinishResult<$name>,
            ServerLoginFinishResult<$name>,
            ServerSetup<$name>,
        )> {
            let setup = ServerSetup::<$name>::new(rng);
            let _ = setup.keypair().public().serialize();
            let ids = Identifiers { client: idu, server: ids };
            let r = ClientRegistration::<$name>::start(rng, pw).ok()?;
            let s = ServerRegistration::<$name>::start(&setup, r.message, cred).ok()?;
            let f = r.state.finish(rng, pw, s.message, ClientRegistrationFinishParameters::new(ids, ksf)).ok()?;
            let file = ServerRegistration::<$name>::finish(f.message.clone());
            let l = ClientLogin::<$name>::start(rng, pw).ok()?;
            let sl = ServerLogin::start(
                rng,
                &setup,
                Some(file),
                l.message,
                cred,
                ServerLoginStartParameters { context: ctx, identifiers: ids },
            )
            .ok()?;
            let cf = l.state.finish(pw, sl.message, ClientLoginFinishParameters::new(ctx, ids, ksf)).ok()?;
            let sf = sl.state.finish(cf.message.clone()).ok()?;
            Some((f, cf, sf, setup))
        }
        pub fn $keys(b: &[u8], rng: &mut TapeRng) {
            if let Ok(kp) = KeyPair::<$ke>::from_private_key_slice(b) {
                let _ = kp.public().serialize();
                let _ = kp.private().serialize();
                let _ = kp.private().public_key();
                if let Ok(pk) = PublicKey::<$ke>::deserialize(b) {
                    let _ = kp.private().diffie_hellman(pk);
                }
                let _ = KeyPair::<$ke>::from_private_key(kp.private().clone());
                let _ = ServerSetup::<$name>::new_with_key(rng, kp);
            }
            let _ = <$ke as KeGroup>::random_sk(rng);
            // the parameter structs' defaults (what "absent" means) are part of what the rules read (L-PARAMS)
            let d = (
                ClientRegistrationFinishParameters::<$name>::default(),
                ClientLoginFinishParameters::<$name>::default(),
                ServerLoginStartParameters::default(),
                Identifiers::default(),
            );
            // callers may clone anything that is `Clone` before handing it to the library (L-CLONE covers every impl reached)
            let _ = (d.0.clone(), d.1.clone(), d.2.clone(), d.3.clone());
            let _ = RegistrationRequest::<$name>::deserialize(b).map(|x| x.clone());
            let _ = RegistrationResponse::<$name>::deserialize(b).map(|x| x.clone());
            let _ = RegistrationUpload::<$name>::deserialize(b).map(|x| x.clone());
            let _ = CredentialRequest::<$name>::deserialize(b).map(|x| x.clone());
            let _ = CredentialResponse::<$name>::deserialize(b).map(|x| x.clone());
            let _ = CredentialFinalization::<$name>::deserialize(b).map(|x| x.clone());
            let _ = ServerRegistration::<$name>::deserialize(b).map(|x| x.clone());
            let _ = ServerSetup::<$name>::deserialize(b).map(|x| x.clone());
            let _ = ClientRegistration::<$name>::deserialize(b).map(|x| x.clone());
            let _ = ClientLogin::<$name>::deserialize(b).map(|x| x.clone());
            let _ = ServerLogin::<$name>::deserialize(b).map(|x| x.clone());
            let _ = KeyPair::<$ke>::from_private_key_slice(b).map(|x| x.clone());
            // ... including the result structs (a cloned start result is what a session table keeps)
            let _ = ClientRegistration::<$name>::start(rng, b).map(|x| x.clone());
            let _ = ClientLogin::<$name>::start(rng, b).map(|x| x.clone());
            if let Some((f, cf, sf, setup)) = $flow(b, b, None, None, None, rng, None) {
                let _ = (f.clone(), cf.clone(), sf.clone());
                if let Ok(req) = RegistrationRequest::<$name>::deserialize(b) {
                    let _ = ServerRegistration::<$name>::start(&setup, req, b).map(|x| x.clone());
                }
                if let Ok(req) = CredentialRequest::<$name>::deserialize(b) {
                    let _ = ServerLogin::<$name>::start(rng, &setup, None, req, b, ServerLoginStartParameters::default()).map(|x| x.clone());
                }
            }
        }
        pub fn $remote(b: &[u8], rng: &mut TapeRng) {
            if let Ok(kp) = KeyPair::<$ke, RemoteKey<$ke>>::from_private_key_slice(b) {
                let setup = ServerSetup::<$name, RemoteKey<$ke>>::new_with_key(rng, kp);
                let _ = setup.keypair().public().serialize();
                let _ = setup.serialize();
                let _ = ServerSetup::<$name, RemoteKey<$ke>>::deserialize(b);
                if let Ok(req) = RegistrationRequest::<$name>::deserialize(b) {
                    let _ = ServerRegistration::<$name>::start(&setup, req, b);
                }
                if let Ok(req) = CredentialRequest::<$name>::deserialize(b) {
                    let file = ServerRegistration::<$name>::deserialize(b).ok();
                    let _ = ServerLogin::<$name>::start(rng, &setup, file, req, b, ServerLoginStartParameters::default());
                }
            }
        }
    };
}

macro_rules! suites {
    ($( ($name:ident, $m:ident, $dec:ident, $flow:ident, $keys:ident, $remote:ident, $oprf:ty, $ke:ty) ),* $(,)?) => {
        $( suite!($name, $m, $dec, $flow, $keys, $remote, $oprf, $ke, ksf::Identity); )*
    };
}

suites!(
    (SR255R255, r255_r255, root_r255_r255__decoders, root_r255_r255__flow, root_r255_r255__keys, root_r255_r255__remote, Ristretto255, Ristretto255),
    (SR255P256, r255_p256, root_r255_p256__decoders, root_r255_p256__flow, root_r255_p256__keys, root_r255_p256__remote, Ristretto255, p256::NistP256),
    (SR255P384, r255_p384, root_r255_p384__decoders, root_r255_p384__flow, root_r255_p384__keys, root_r255_p384__remote, Ristretto255, p384::NistP384),
    (SR255P521, r255_p521, root_r255_p521__decoders, root_r255_p521__flow, root_r255_p521__keys, root_r255_p521__remote, Ristretto255, p521::NistP521),
    (SR255C25519, r255_c25519, root_r255_c25519__decoders, root_r255_c25519__flow, root_r255_c25519__keys, root_r255_c25519__remote, Ristretto255, Curve25519),
    (SP256R255, p256_r255, root_p256_r255__decoders, root_p256_r255__flow, root_p256_r255__keys, root_p256_r255__remote, p256::NistP256, Ristretto255),
    (SP256P256, p256_p256, root_p256_p256__decoders, root_p256_p256__flow, root_p256_p256__keys, root_p256_p256__remote, p256::NistP256, p256::NistP256),
    (SP256P384, p256_p384, root_p256_p384__decoders, root_p256_p384__flow, root_p256_p384__keys, root_p256_p384__remote, p256::NistP256, p384::NistP384),
    (SP256P521, p256_p521, root_p256_p521__decoders, root_p256_p521__flow, root_p256_p521__keys, root_p256_p521__remote, p256::NistP256, p521::NistP521),
    (SP256C25519, p256_c25519, root_p256_c25519__decoders, root_p256_c25519__flow, root_p256_c25519__keys, root_p256_c25519__remote, p256::NistP256, Curve25519),
    (SP384R255, p384_r255, root_p384_r255__decoders, root_p384_r255__flow, root_p384_r255__keys, root_p384_r255__remote, p384::NistP384, Ristretto255),
    (SP384P256, p384_p256, root_p384_p256__decoders, root_p384_p256__flow, root_p384_p256__keys, root_p384_p256__remote, p384::NistP384, p256::NistP256),
    (SP384P384, p384_p384, root_p384_p384__decoders, root_p384_p384__flow, root_p384_p384__keys, root_p384_p384__remote, p384::NistP384, p384::NistP384),
    (SP384P521, p384_p521, root_p384_p521__decoders, root_p384_p521__flow, root_p384_p521__keys, root_p384_p521__remote, p384::NistP384, p521::NistP521),
    (SP384C25519, p384_c25519, root_p384_c25519__decoders, root_p384_c25519__flow, root_p384_c25519__keys, root_p384_c25519__remote, p384::NistP384, Curve25519),
    (SP521R255, p521_r255, root_p521_r255__decoders, root_p521_r255__flow, root_p521_r255__keys, root_p521_r255__remote, p521::NistP521, Ristretto255),
    (SP521P256, p521_p256, root_p521_p256__decoders, root_p521_p256__flow, root_p521_p256__keys, root_p521_p256__remote, p521::NistP521, p256::NistP256),
    (SP521P384, p521_p384, root_p521_p384__decoders, root_p521_p384__flow, root_p521_p384__keys, root_p521_p384__remote, p521::NistP521, p384::NistP384),
    (SP521P521, p521_p521, root_p521_p521__decoders, root_p521_p521__flow, root_p521_p521__keys, root_p521_p521__remote, p521::NistP521, p521::NistP521),
    (SP521C25519, p521_c25519, root_p521_c25519__decoders, root_p521_c25519__flow, root_p521_c25519__keys, root_p521_c25519__remote, p521::NistP521, Curve25519),
);

// One extra suite with a real key-stretching function (C15).
suite!(SArgon2, argon2, root_argon2__decoders, root_argon2__flow, root_argon2__keys, root_argon2__remote, Ristretto255, Ristretto255, argon2::Argon2<'static>);
