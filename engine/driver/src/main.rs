#![feature(rustc_private)]
// Prototype fact extractor (scratch). G-mode: dump structured MIR of the local crate as JSON.
extern crate rustc_abi;
extern crate rustc_driver;
extern crate rustc_hir;
extern crate rustc_interface;
extern crate rustc_middle;
extern crate rustc_span;

use rustc_driver::Compilation;
use rustc_hir::def::DefKind;
use rustc_hir::def_id::DefId;
use rustc_middle::mir::interpret::{AllocId, GlobalAlloc, Scalar};
use rustc_middle::mir::{
    self, AggregateKind, BasicBlockData, Body, Const, ConstValue, Operand, Place, ProjectionElem,
    Rvalue, StatementKind, TerminatorKind,
};
use rustc_middle::ty::{self, Ty, TyCtxt, TypingEnv, TypeVisitableExt};
use std::fmt::Write as _;

mod json {
    pub fn esc(s: &str) -> String {
        let mut o = String::with_capacity(s.len() + 2);
        o.push('"');
        for c in s.chars() {
            match c {
                '"' => o.push_str("\\\""),
                '\\' => o.push_str("\\\\"),
                '\n' => o.push_str("\\n"),
                '\r' => o.push_str("\\r"),
                '\t' => o.push_str("\\t"),
                c if (c as u32) < 0x20 => o.push_str(&format!("\\u{:04x}", c as u32)),
                c => o.push(c),
            }
        }
        o.push('"');
        o
    }
    pub fn arr(items: &[String]) -> String {
        format!("[{}]", items.join(","))
    }
    pub fn obj(items: &[(&str, String)]) -> String {
        let v: Vec<String> = items.iter().map(|(k, v)| format!("{}:{}", esc(k), v)).collect();
        format!("{{{}}}", v.join(","))
    }
    pub fn hex(b: &[u8]) -> String {
        let mut s = String::new();
        for x in b {
            s.push_str(&format!("{:02x}", x));
        }
        esc(&s)
    }
}
use json::{arr, esc, hex, obj};

struct Mono<'tcx> {
    ids: std::collections::HashMap<ty::Instance<'tcx>, usize>,
    queue: std::collections::VecDeque<(ty::Instance<'tcx>, usize, usize)>, // (instance, id, parent)
    types: std::collections::BTreeMap<String, String>,
}

struct Cx<'tcx> {
    tcx: TyCtxt<'tcx>,
    mono: Option<std::cell::RefCell<Mono<'tcx>>>,
    cur: std::cell::Cell<usize>,
}

impl<'tcx> Cx<'tcx> {
    fn span(&self, sp: rustc_span::Span) -> String {
        let sm = self.tcx.sess.source_map();
        let lo = sm.lookup_char_pos(sp.lo());
        let file = match &lo.file.name {
            rustc_span::FileName::Real(r) => format!("{}", r.local_path().map(|p| p.display().to_string()).unwrap_or_default()),
            other => format!("{:?}", other),
        };
        esc(&format!("{}:{}:{}{}", file, lo.line, lo.col.0 + 1, if sp.from_expansion() { "!" } else { "" }))
    }
    fn ty(&self, t: Ty<'tcx>) -> String {
        esc(&format!("{}", t))
    }
    fn read_alloc(&self, id: AllocId, off: usize, len: usize) -> Option<Vec<u8>> {
        match self.tcx.global_alloc(id) {
            GlobalAlloc::Memory(a) => {
                let a = a.inner();
                if off + len <= a.len() {
                    Some(a.inspect_with_uninit_and_ptr_outside_interpreter(off..off + len).to_vec())
                } else {
                    None
                }
            }
            GlobalAlloc::Static(did) => {
                let a = self.tcx.eval_static_initializer(did).ok()?;
                let a = a.inner();
                if off + len <= a.len() {
                    Some(a.inspect_with_uninit_and_ptr_outside_interpreter(off..off + len).to_vec())
                } else {
                    None
                }
            }
            _ => None,
        }
    }
    // bytes behind a pointer-typed constant (&[u8], &[u8;N], &str, &&[u8] via static)
    fn bytes_of_ptr_const(&self, val: ConstValue, ty: Ty<'tcx>) -> Option<Vec<u8>> {
        match val {
            ConstValue::Slice { alloc_id, meta } => self.read_alloc(alloc_id, 0, meta as usize),
            ConstValue::Scalar(Scalar::Ptr(p, _)) => {
                let (prov, off) = p.into_raw_parts();
                let id = prov.alloc_id();
                // pointee type
                let pointee = match ty.kind() {
                    ty::Ref(_, t, _) => *t,
                    ty::RawPtr(t, _) => *t,
                    _ => return None,
                };
                match pointee.kind() {
                    ty::Array(et, n) if et.is_integral() => {
                        let n = n.try_to_target_usize(self.tcx)? as usize;
                        self.read_alloc(id, off.bytes() as usize, n)
                    }
                    // pointer to a static holding a fat pointer (&'static [u8])
                    ty::Ref(_, inner, _) if matches!(inner.kind(), ty::Slice(_) | ty::Str) => {
                        self.bytes_of_fat_ptr_in_alloc(id, off.bytes() as usize)
                    }
                    // pointer to a thin pointer (&&T): follow it
                    ty::Ref(_, inner, _) => {
                        let (id2, off2) = self.thin_ptr_in_alloc(id, off.bytes() as usize)?;
                        self.bytes_of_sized(id2, off2, *inner)
                    }
                    _ => self.bytes_of_sized(id, off.bytes() as usize, pointee),
                }
            }
            _ => None,
        }
    }
    fn thin_ptr_in_alloc(&self, id: AllocId, off: usize) -> Option<(AllocId, usize)> {
        let alloc = match self.tcx.global_alloc(id) {
            GlobalAlloc::Memory(a) => a,
            GlobalAlloc::Static(did) => self.tcx.eval_static_initializer(did).ok()?,
            _ => return None,
        };
        let a = alloc.inner();
        if off + 8 > a.len() {
            return None;
        }
        let raw = a.inspect_with_uninit_and_ptr_outside_interpreter(off..off + 8);
        let addr = u64::from_le_bytes(raw[0..8].try_into().ok()?) as usize;
        let prov = a.provenance().ptrs().iter().find(|(o, _)| o.bytes() as usize == off).map(|(_, p)| *p)?;
        Some((prov.alloc_id(), addr))
    }
    /// bytes of a sized, pointer-free value stored at (alloc, off)
    fn bytes_of_sized(&self, id: AllocId, off: usize, t: Ty<'tcx>) -> Option<Vec<u8>> {
        if t.has_non_region_param() {
            return None;
        }
        let layout = self.tcx.layout_of(TypingEnv::fully_monomorphized().as_query_input(t)).ok()?;
        let n = layout.size.bytes() as usize;
        if n == 0 || n > 4096 {
            return None;
        }
        let alloc = match self.tcx.global_alloc(id) {
            GlobalAlloc::Memory(a) => a,
            GlobalAlloc::Static(did) => self.tcx.eval_static_initializer(did).ok()?,
            _ => return None,
        };
        let a = alloc.inner();
        if off + n > a.len() {
            return None;
        }
        if a.provenance().ptrs().iter().any(|(o, _)| (o.bytes() as usize) >= off && (o.bytes() as usize) < off + n) {
            return None;
        }
        Some(a.inspect_with_uninit_and_ptr_outside_interpreter(off..off + n).to_vec())
    }
    fn bytes_of_fat_ptr_in_alloc(&self, id: AllocId, off: usize) -> Option<Vec<u8>> {
        let alloc = match self.tcx.global_alloc(id) {
            GlobalAlloc::Memory(a) => a,
            GlobalAlloc::Static(did) => self.tcx.eval_static_initializer(did).ok()?,
            _ => return None,
        };
        let a = alloc.inner();
        if off + 16 > a.len() {
            return None;
        }
        let raw = a.inspect_with_uninit_and_ptr_outside_interpreter(off..off + 16);
        let addr = u64::from_le_bytes(raw[0..8].try_into().ok()?) as usize;
        let len = u64::from_le_bytes(raw[8..16].try_into().ok()?) as usize;
        let prov = a.provenance().ptrs().iter().find(|(o, _)| o.bytes() as usize == off).map(|(_, p)| *p)?;
        self.read_alloc(prov.alloc_id(), addr, len)
    }

    fn konst(&self, c: &Const<'tcx>, _span: rustc_span::Span) -> String {
        let tcx = self.tcx;
        let ty = c.ty();
        let mut items: Vec<(&str, String)> = vec![("ty", self.ty(ty))];
        // function items
        if let ty::FnDef(did, args) = ty.kind() {
            items.push(("k", esc("fn")));
            items.push(("fn", self.fnref(*did, args)));
            if let Some(r) = self.resolved(*did, args, self.cur.get()) {
                items.push(("res", r));
            }
            return obj(&items);
        }
        match c {
            Const::Unevaluated(uv, _) => {
                items.push(("k", esc("unevaluated")));
                items.push(("def", esc(&tcx.def_path_str(uv.def))));
                items.push(("args", arr(&uv.args.iter().map(|a| esc(&format!("{}", a))).collect::<Vec<_>>())));
                if let Some(p) = uv.promoted {
                    items.push(("promoted", format!("{}", p.as_u32())));
                    items.push(("promoted_of", esc(&tcx.def_path_str(uv.def))));
                }
                // try to evaluate when it does not depend on generics
                if !uv.args.has_non_region_param() && !ty.has_non_region_param() {
                    if let Ok(v) = tcx.const_eval_resolve(TypingEnv::fully_monomorphized(), *uv, rustc_span::DUMMY_SP) {
                        self.push_val(&mut items, v, ty);
                    } else {
                        items.push(("evalfail", "true".into()));
                    }
                }
            }
            Const::Val(v, _) => {
                items.push(("k", esc("val")));
                self.push_val(&mut items, *v, ty);
            }
            Const::Ty(_, ct) => {
                items.push(("k", esc("tyconst")));
                items.push(("repr", esc(&format!("{}", ct))));
                if let Some(v) = ct.try_to_target_usize(tcx) {
                    items.push(("int", format!("{}", v)));
                }
            }
        }
        obj(&items)
    }
    /// a constant of one of the analysed crate's own enum/struct types (directly or behind a reference, e.g. a promoted
    /// `&ProtocolError::LibraryError(..)`), destructured into variant and fields instead of raw bytes
    fn adt_const(&self, v: ConstValue, ty: Ty<'tcx>, depth: usize) -> Option<String> {
        if depth > 4 {
            return None;
        }
        let tcx = self.tcx;
        match ty.kind() {
            ty::Ref(_, inner, _) if matches!(inner.kind(), ty::Adt(..)) => {
                if let ConstValue::Scalar(Scalar::Ptr(p, _)) = v {
                    let (prov, off) = p.into_raw_parts();
                    return self.adt_const(ConstValue::Indirect { alloc_id: prov.alloc_id(), offset: off }, *inner, depth + 1);
                }
                None
            }
            ty::Adt(def, _)
                if (def.is_enum() || def.is_struct())
                    && tcx.crate_name(def.did().krate).as_str() == "opaque_ke"
                    && !ty.has_non_region_param() =>
            {
                let d = tcx.try_destructure_mir_constant_for_user_output(v, ty)?;
                let vidx = d.variant.unwrap_or(rustc_abi::FIRST_VARIANT);
                let vdef = def.variant(vidx);
                let mut fs = vec![];
                for (i, (fv, fty)) in d.fields.iter().enumerate() {
                    let name = vdef.fields.iter().nth(i).map(|f| f.name.to_string()).unwrap_or(format!("{}", i));
                    let mut items: Vec<(&str, String)> = vec![("ty", self.ty(*fty))];
                    if let Some(a) = self.adt_const(*fv, *fty, depth + 1) {
                        items.push(("adtc", a));
                    } else {
                        self.push_val(&mut items, *fv, *fty);
                    }
                    fs.push(obj(&[("name", esc(&name)), ("val", obj(&items))]));
                }
                Some(obj(&[("adt", esc(&self.dpath(def.did()))), ("variant", esc(vdef.name.as_str())), ("fields", arr(&fs))]))
            }
            _ => None,
        }
    }
    fn push_val(&self, items: &mut Vec<(&str, String)>, v: ConstValue, ty: Ty<'tcx>) {
        if let Some(a) = self.adt_const(v, ty, 0) {
            items.push(("adtc", a));
            return;
        }
        match v {
            ConstValue::Scalar(Scalar::Int(i)) => {
                items.push(("int", esc(&format!("{}", i.to_bits_unchecked()))));
                items.push(("size", format!("{}", i.size().bytes())));
            }
            ConstValue::ZeroSized => items.push(("zst", "true".into())),
            ConstValue::Indirect { alloc_id, offset } if matches!(ty.kind(), ty::Array(et, _) if et.is_integral() && et.primitive_size(self.tcx).bytes() == 1) => {
                let n = match ty.kind() {
                    ty::Array(_, n) => n.try_to_target_usize(self.tcx).unwrap_or(0) as usize,
                    _ => 0,
                };
                match self.read_alloc(alloc_id, offset.bytes() as usize, n) {
                    Some(b) => items.push(("bytes", hex(&b))),
                    None => items.push(("opaque", esc("indirect"))),
                }
            }
            ConstValue::Indirect { alloc_id, offset }
                if matches!(ty.kind(), ty::Ref(_, inner, _) if matches!(inner.kind(), ty::Slice(_) | ty::Str)) =>
            {
                match self.bytes_of_fat_ptr_in_alloc(alloc_id, offset.bytes() as usize) {
                    Some(b) => items.push(("bytes", hex(&b))),
                    None => items.push(("opaque", esc("indirect-fat"))),
                }
            }
            other => {
                if let Some(b) = self.bytes_of_ptr_const(other, ty) {
                    items.push(("bytes", hex(&b)));
                } else {
                    items.push(("opaque", esc(&format!("{:?}", other))));
                }
            }
        }
    }

    /// M-mode: resolve a (def, args) pair to an instance, enqueue it, and describe it
    fn resolved(&self, did: DefId, args: ty::GenericArgsRef<'tcx>, parent: usize) -> Option<String> {
        let m = self.mono.as_ref()?;
        let tcx = self.tcx;
        let env = TypingEnv::fully_monomorphized();
        let inst = match ty::Instance::try_resolve(tcx, env, did, args) {
            Ok(Some(i)) => i,
            _ => return Some(obj(&[("unresolved", "true".into())])),
        };
        Some(self.describe_instance(m, inst, parent))
    }
    fn describe_instance(&self, m: &std::cell::RefCell<Mono<'tcx>>, inst: ty::Instance<'tcx>, parent: usize) -> String {
        let tcx = self.tcx;
        let mut mm = m.borrow_mut();
        let n = mm.ids.len();
        let id = *mm.ids.entry(inst).or_insert(n);
        if id == n {
            mm.queue.push_back((inst, id, parent));
        }
        drop(mm);
        let rdid = inst.def_id();
        let mut items: Vec<(&str, String)> = vec![
            ("id", format!("{}", id)),
            ("dpath", esc(&self.dpath(rdid))),
            ("crate", esc(tcx.crate_name(rdid.krate).as_str())),
            ("ikind", esc(&format!("{:?}", inst.def).split(|c| c == '(' || c == ' ' || c == '{').next().unwrap_or("").to_string())),
        ];
        if let Some(assoc) = tcx.opt_associated_item(rdid) {
            items.push(("name", esc(assoc.name().as_str())));
            match assoc.container {
                ty::AssocContainer::Trait => {
                    items.push(("trait_dpath", esc(&self.dpath(tcx.parent(rdid)))));
                    items.push(("trait_default", "true".into()));
                }
                _ => {
                    let imp = tcx.parent(rdid);
                    if matches!(tcx.def_kind(imp), DefKind::Impl { .. }) {
                        if let Some(tr) = tcx.impl_opt_trait_ref(imp) {
                            items.push(("trait_dpath", esc(&self.dpath(tr.skip_binder().def_id))));
                        }
                        let st = tcx.type_of(imp).instantiate(tcx, inst.args).skip_norm_wip();
                        items.push(("self_ty", self.ty(st)));
                        if let ty::Adt(ad, _) = st.kind() {
                            items.push(("self_dpath", esc(&self.dpath(ad.did()))));
                        }
                    }
                }
            }
        }
        obj(&items)
    }

    /// M-mode: record the layout (variants, fields with concrete types) of crate-defined ADTs
    fn note_type(&self, t: Ty<'tcx>, depth: usize) {
        let Some(m) = self.mono.as_ref() else { return };
        if depth > 12 {
            return;
        }
        let tcx = self.tcx;
        let env = TypingEnv::fully_monomorphized();
        match t.kind() {
            ty::Ref(_, inner, _) => self.note_type(*inner, depth + 1),
            ty::Tuple(ts) => {
                for x in ts.iter() {
                    self.note_type(x, depth + 1)
                }
            }
            ty::Adt(ad, args) => {
                let cname = tcx.crate_name(ad.did().krate).to_string();
                let key = format!("{}", t);
                if m.borrow().types.contains_key(&key) {
                    return;
                }
                if cname == "core" || cname == "std" || cname == "alloc" {
                    // Option / Result / ControlFlow wrappers: look through
                    for a in args.iter() {
                        if let Some(x) = a.as_type() {
                            self.note_type(x, depth + 1);
                        }
                    }
                    return;
                }
                if !(cname == "opaque_ke" || cname == "voprf" || cname == "suites" || cname == "fixtures") {
                    return;
                }
                m.borrow_mut().types.insert(key.clone(), String::new());
                let mut vs = Vec::new();
                for v in ad.variants().iter() {
                    let mut fs = Vec::new();
                    for f in v.fields.iter() {
                        let fty = f.ty(tcx, args);
                        let fty = tcx.try_normalize_erasing_regions(env, rustc_middle::ty::Unnormalized::new_wip(fty)).unwrap_or(fty);
                        fs.push(obj(&[("name", esc(f.name.as_str())), ("ty", self.ty(fty)), ("vis", esc(&format!("{:?}", f.vis)))]));
                        self.note_type(fty, depth + 1);
                    }
                    vs.push(obj(&[("name", esc(v.name.as_str())), ("fields", arr(&fs))]));
                }
                let d = obj(&[
                    ("dpath", esc(&self.dpath(ad.did()))),
                    ("crate", esc(&cname)),
                    ("kind", esc(if ad.is_enum() { "enum" } else { "struct" })),
                    ("variants", arr(&vs)),
                ]);
                m.borrow_mut().types.insert(key, d);
            }
            _ => {}
        }
    }

    /// defining crate + definition path (independent of re-exports)
    fn dpath(&self, did: DefId) -> String {
        format!("{}{}", self.tcx.crate_name(did.krate), self.tcx.def_path(did).to_string_no_crate_verbose())
    }
    fn fnref(&self, did: DefId, args: ty::GenericArgsRef<'tcx>) -> String {
        let tcx = self.tcx;
        let mut items: Vec<(&str, String)> = vec![
            ("path", esc(&tcx.def_path_str(did))),
            ("dpath", esc(&self.dpath(did))),
            ("crate", esc(tcx.crate_name(did.krate).as_str())),
            ("args", arr(&args.iter().map(|a| esc(&format!("{}", a))).collect::<Vec<_>>())),
            ("local", format!("{}", did.is_local())),
        ];
        if let Some(assoc) = tcx.opt_associated_item(did) {
            items.push(("name", esc(assoc.name().as_str())));
            match assoc.container {
                ty::AssocContainer::Trait => {
                    let tr = tcx.parent(did);
                    items.push(("trait", esc(&tcx.def_path_str(tr))));
                    items.push(("trait_dpath", esc(&self.dpath(tr))));
                    if let Some(self_ty) = args.get(0).and_then(|a| a.as_type()) {
                        items.push(("self_ty", self.ty(self_ty)));
                    }
                }
                _ => {
                    let imp = tcx.parent(did);
                    if matches!(tcx.def_kind(imp), DefKind::Impl { .. }) {
                        let st = tcx.type_of(imp).instantiate(tcx, args).skip_norm_wip();
                        items.push(("self_ty", self.ty(st)));
                        if let ty::Adt(ad, _) = st.kind() {
                            items.push(("self_dpath", esc(&self.dpath(ad.did()))));
                        }
                        if let Some(tr) = tcx.impl_opt_trait_ref(imp) {
                            items.push(("impl_of_trait", esc(&tcx.def_path_str(tr.skip_binder().def_id))));
                            items.push(("impl_of_trait_dpath", esc(&self.dpath(tr.skip_binder().def_id))));
                        }
                    }
                }
            }
        } else {
            items.push(("name", esc(tcx.item_name(did).as_str())));
        }
        obj(&items)
    }

    fn place(&self, body: &Body<'tcx>, p: &Place<'tcx>) -> String {
        let tcx = self.tcx;
        let mut projs = Vec::new();
        let mut pty = mir::PlaceTy::from_ty(body.local_decls[p.local].ty);
        for e in p.projection.iter() {
            let s = match e {
                ProjectionElem::Deref => arr(&[esc("deref")]),
                ProjectionElem::Field(f, fty) => {
                    let mut name = format!("{}", f.as_u32());
                    if let ty::Adt(adt, _) = pty.ty.kind() {
                        let vidx = pty.variant_index.unwrap_or(rustc_abi::FIRST_VARIANT);
                        if adt.is_enum() || adt.is_struct() || adt.is_union() {
                            if let Some(v) = adt.variants().get(vidx) {
                                if let Some(fd) = v.fields.get(f) {
                                    name = fd.name.to_string();
                                }
                            }
                        }
                    }
                    arr(&[esc("field"), format!("{}", f.as_u32()), esc(&name), self.ty(fty)])
                }
                ProjectionElem::Index(l) => arr(&[esc("index"), format!("{}", l.as_u32())]),
                ProjectionElem::ConstantIndex { offset, min_length, from_end } => {
                    arr(&[esc("cidx"), format!("{}", offset), format!("{}", min_length), format!("{}", from_end)])
                }
                ProjectionElem::Subslice { from, to, from_end } => {
                    arr(&[esc("subslice"), format!("{}", from), format!("{}", to), format!("{}", from_end)])
                }
                ProjectionElem::Downcast(name, v) => arr(&[
                    esc("downcast"),
                    format!("{}", v.as_u32()),
                    esc(&name.map(|n| n.to_string()).unwrap_or_default()),
                ]),
                ProjectionElem::OpaqueCast(t) => arr(&[esc("opaquecast"), self.ty(t)]),
                ProjectionElem::UnwrapUnsafeBinder(t) => arr(&[esc("unwrapbinder"), self.ty(t)]),
            };
            projs.push(s);
            pty = pty.projection_ty(tcx, e);
        }
        obj(&[("l", format!("{}", p.local.as_u32())), ("p", arr(&projs))])
    }

    fn operand(&self, body: &Body<'tcx>, o: &Operand<'tcx>) -> String {
        match o {
            Operand::Copy(p) => obj(&[("k", esc("copy")), ("place", self.place(body, p))]),
            Operand::Move(p) => obj(&[("k", esc("move")), ("place", self.place(body, p))]),
            Operand::Constant(c) => obj(&[("k", esc("const")), ("c", self.konst(&c.const_, c.span))]),
            other => obj(&[("k", esc("other")), ("repr", esc(&format!("{:?}", other)))]),
        }
    }

    fn rvalue(&self, body: &Body<'tcx>, rv: &Rvalue<'tcx>) -> String {
        let tcx = self.tcx;
        match rv {
            Rvalue::Use(o, _) => obj(&[("k", esc("use")), ("op", self.operand(body, o))]),
            Rvalue::Repeat(o, n) => obj(&[
                ("k", esc("repeat")),
                ("op", self.operand(body, o)),
                ("n", esc(&format!("{}", n))),
            ]),
            Rvalue::Ref(_, bk, p) => obj(&[
                ("k", esc("ref")),
                ("mut", format!("{}", matches!(bk, mir::BorrowKind::Mut { .. }))),
                ("place", self.place(body, p)),
            ]),
            Rvalue::RawPtr(_, p) => obj(&[("k", esc("rawptr")), ("place", self.place(body, p))]),
            Rvalue::Cast(ck, o, t) => obj(&[
                ("k", esc("cast")),
                ("kind", esc(&format!("{:?}", ck))),
                ("op", self.operand(body, o)),
                ("from", self.ty(o.ty(&body.local_decls, tcx))),
                ("to", self.ty(*t)),
            ]),
            Rvalue::BinaryOp(op, ab) => obj(&[
                ("k", esc("binop")),
                ("op", esc(&format!("{:?}", op))),
                ("a", self.operand(body, &ab.0)),
                ("b", self.operand(body, &ab.1)),
            ]),
            Rvalue::UnaryOp(op, a) => obj(&[
                ("k", esc("unop")),
                ("op", esc(&format!("{:?}", op))),
                ("a", self.operand(body, a)),
            ]),
            Rvalue::Discriminant(p) => obj(&[
                ("k", esc("discr")),
                ("place", self.place(body, p)),
                ("pty", self.ty(p.ty(&body.local_decls, tcx).ty)),
            ]),
            Rvalue::Aggregate(kind, ops) => {
                let ops_s: Vec<String> = ops.iter().map(|o| self.operand(body, o)).collect();
                let mut items: Vec<(&str, String)> = vec![("k", esc("aggr")), ("ops", arr(&ops_s))];
                match &**kind {
                    AggregateKind::Array(t) => {
                        items.push(("akind", esc("array")));
                        items.push(("elem", self.ty(*t)));
                    }
                    AggregateKind::Tuple => items.push(("akind", esc("tuple"))),
                    AggregateKind::Adt(did, vidx, args, _, _) => {
                        items.push(("akind", esc("adt")));
                        items.push(("adt", esc(&tcx.def_path_str(*did))));
                        items.push(("adt_dpath", esc(&self.dpath(*did))));
                        let adt = tcx.adt_def(*did);
                        let v = adt.variant(*vidx);
                        items.push(("variant", esc(v.name.as_str())));
                        items.push(("vidx", format!("{}", vidx.as_u32())));
                        items.push((
                            "fields",
                            arr(&v.fields.iter().map(|f| esc(f.name.as_str())).collect::<Vec<_>>()),
                        ));
                        items.push(("args", arr(&args.iter().map(|a| esc(&format!("{}", a))).collect::<Vec<_>>())));
                    }
                    AggregateKind::Closure(did, cargs) => {
                        items.push(("akind", esc("closure")));
                        items.push(("def", esc(&tcx.def_path_str(*did))));
                        if let Some(m) = self.mono.as_ref() {
                            let ci = ty::Instance::new_raw(*did, cargs);
                            items.push(("res", self.describe_instance(m, ci, self.cur.get())));
                        }
                    }
                    other => {
                        items.push(("akind", esc("other")));
                        items.push(("repr", esc(&format!("{:?}", other))));
                    }
                }
                obj(&items)
            }
            Rvalue::CopyForDeref(p) => obj(&[("k", esc("copyforderef")), ("place", self.place(body, p))]),
            other => obj(&[("k", esc("other")), ("repr", esc(&format!("{:?}", other)))]),
        }
    }

    fn block(&self, body: &Body<'tcx>, bb: &BasicBlockData<'tcx>) -> String {
        let tcx = self.tcx;
        let mut stmts = Vec::new();
        for st in &bb.statements {
            match &st.kind {
                StatementKind::Assign(b) => stmts.push(obj(&[
                    ("k", esc("assign")),
                    ("place", self.place(body, &b.0)),
                    ("rv", self.rvalue(body, &b.1)),
                    ("span", self.span(st.source_info.span)),
                ])),
                StatementKind::SetDiscriminant { place, variant_index } => stmts.push(obj(&[
                    ("k", esc("setdiscr")),
                    ("place", self.place(body, place)),
                    ("v", format!("{}", variant_index.as_u32())),
                ])),
                _ => {}
            }
        }
        let term = bb.terminator();
        let sp = self.span(term.source_info.span);
        let t = match &term.kind {
            TerminatorKind::Goto { target } => obj(&[("k", esc("goto")), ("t", format!("{}", target.as_u32()))]),
            TerminatorKind::SwitchInt { discr, targets } => {
                let arms: Vec<String> =
                    targets.iter().map(|(v, bb)| arr(&[esc(&format!("{}", v)), format!("{}", bb.as_u32())])).collect();
                obj(&[
                    ("k", esc("switch")),
                    ("discr", self.operand(body, discr)),
                    ("dty", self.ty(discr.ty(&body.local_decls, tcx))),
                    ("arms", arr(&arms)),
                    ("otherwise", format!("{}", targets.otherwise().as_u32())),
                ])
            }
            TerminatorKind::Return => obj(&[("k", esc("return"))]),
            TerminatorKind::Unreachable => obj(&[("k", esc("unreachable"))]),
            TerminatorKind::UnwindResume => obj(&[("k", esc("resume"))]),
            TerminatorKind::UnwindTerminate(_) => obj(&[("k", esc("terminate"))]),
            TerminatorKind::Drop { place, target, .. } => obj(&[
                ("k", esc("drop")),
                ("place", self.place(body, place)),
                ("t", format!("{}", target.as_u32())),
            ]),
            TerminatorKind::Call { func, args, destination, target, .. } => {
                let fty = func.ty(&body.local_decls, tcx);
                let callee = match fty.kind() {
                    ty::FnDef(did, gargs) => self.fnref(*did, gargs),
                    _ => obj(&[("indirect", self.operand(body, func)), ("ty", self.ty(fty))]),
                };
                let a: Vec<String> = args.iter().map(|a| self.operand(body, &a.node)).collect();
                let res = match fty.kind() {
                    ty::FnDef(did, gargs) => self.resolved(*did, gargs, self.cur.get()).unwrap_or("null".into()),
                    _ => "null".into(),
                };
                obj(&[
                    ("k", esc("call")),
                    ("callee", callee),
                    ("res", res),
                    ("args", arr(&a)),
                    ("dest", self.place(body, destination)),
                    ("t", target.map(|t| format!("{}", t.as_u32())).unwrap_or("null".into())),
                    ("span", sp),
                ])
            }
            TerminatorKind::Assert { cond, expected, msg, target, .. } => obj(&[
                ("k", esc("assert")),
                ("cond", self.operand(body, cond)),
                ("expected", format!("{}", expected)),
                ("msg", esc(&format!("{:?}", msg).chars().take(60).collect::<String>())),
                ("t", format!("{}", target.as_u32())),
                ("span", sp),
            ]),
            TerminatorKind::FalseEdge { real_target, .. } => {
                obj(&[("k", esc("goto")), ("t", format!("{}", real_target.as_u32()))])
            }
            TerminatorKind::FalseUnwind { real_target, .. } => {
                obj(&[("k", esc("goto")), ("t", format!("{}", real_target.as_u32()))])
            }
            other => obj(&[("k", esc("other")), ("repr", esc(&format!("{:?}", other)))]),
        };
        obj(&[("cleanup", format!("{}", bb.is_cleanup)), ("stmts", arr(&stmts)), ("term", t)])
    }

    fn body(&self, did: DefId) -> Vec<String> {
        let tcx = self.tcx;
        let body = tcx.optimized_mir(did);
        let label = tcx.def_path_str(did);
        let mut out = vec![self.body_of(&label, did, body, None)];
        if did.is_local() {
            for (i, pb) in tcx.promoted_mir(did).iter_enumerated() {
                out.push(self.body_of(&format!("{}::promoted[{}]", label, i.as_u32()), did, pb, Some(i.as_u32())));
            }
        }
        out
    }

    fn body_of(&self, label: &str, did: DefId, body: &Body<'tcx>, promoted: Option<u32>) -> String {
        let tcx = self.tcx;
        let mut names = vec![String::new(); body.local_decls.len()];
        for vdi in &body.var_debug_info {
            if let mir::VarDebugInfoContents::Place(p) = &vdi.value {
                if p.projection.is_empty() {
                    names[p.local.as_usize()] = vdi.name.to_string();
                }
            }
        }
        for d in body.local_decls.iter() {
            self.note_type(d.ty, 0);
        }
        let locals: Vec<String> = body
            .local_decls
            .iter_enumerated()
            .map(|(l, d)| obj(&[("ty", self.ty(d.ty)), ("name", esc(&names[l.as_usize()]))]))
            .collect();
        let blocks: Vec<String> = body.basic_blocks.iter().map(|bb| self.block(body, bb)).collect();
        let kind = format!("{:?}", tcx.def_kind(did));
        let mut items: Vec<(&str, String)> = vec![
            ("path", esc(label)),
            ("dpath", esc(&self.dpath(did))),
            ("crate", esc(tcx.crate_name(did.krate).as_str())),
            ("kind", esc(&kind)),
            ("argc", format!("{}", body.arg_count)),
            ("span", self.span(body.span)),
            ("locals", arr(&locals)),
            ("blocks", arr(&blocks)),
        ];
        if let Some(p) = promoted {
            items.push(("promoted", format!("{}", p)));
        }
        if promoted.is_none() && matches!(tcx.def_kind(did), DefKind::Fn | DefKind::AssocFn) {
            items.push(("vis", esc(&format!("{:?}", tcx.visibility(did)))));
            if let Some(assoc) = tcx.opt_associated_item(did) {
                items.push(("name", esc(assoc.name().as_str())));
                let parent = tcx.parent(did);
                if matches!(tcx.def_kind(parent), DefKind::Impl { .. }) {
                    items.push(("impl_self", self.ty(tcx.type_of(parent).instantiate_identity().skip_norm_wip())));
                    if let Some(tr) = tcx.impl_opt_trait_ref(parent) {
                        items.push(("impl_trait", esc(&format!("{}", tr.instantiate_identity().skip_norm_wip()))));
                        items.push(("impl_trait_dpath", esc(&self.dpath(tr.skip_binder().def_id))));
                    }
                } else if matches!(tcx.def_kind(parent), DefKind::Trait) {
                    items.push(("trait_default", esc(&tcx.def_path_str(parent))));
                }
            }
        }
        obj(&items)
    }

    /// M-mode: walk instances reachable from the given root functions of the local crate
    fn mono(&self, roots: &[DefId], interesting: &[&str]) -> (Vec<String>, Vec<String>) {
        use rustc_middle::ty::{EarlyBinder, Instance};
        let tcx = self.tcx;
        let env = TypingEnv::fully_monomorphized();
        let m = self.mono.as_ref().unwrap();
        for did in roots {
            let inst = Instance::mono(tcx, *did);
            let _ = self.describe_instance(m, inst, usize::MAX);
        }
        let mut bodies = Vec::new();
        let mut leaves = Vec::new();
        loop {
            let next = m.borrow_mut().queue.pop_front();
            let Some((inst, id, parent)) = next else { break };
            let did = inst.def_id();
            let cname = tcx.crate_name(did.krate).to_string();
            let label = tcx.def_path_str_with_args(did, inst.args);
            let parent_s = if parent == usize::MAX { "null".to_string() } else { format!("{}", parent) };
            let is_item = matches!(inst.def, ty::InstanceKind::Item(_));
            if !is_item || !tcx.is_mir_available(did) {
                leaves.push(obj(&[
                    ("id", format!("{}", id)),
                    ("inst", esc(&label)),
                    ("dpath", esc(&self.dpath(did))),
                    ("crate", esc(&cname)),
                    ("parent", parent_s),
                    ("kind", esc(&format!("{:?}", inst.def).chars().take(40).collect::<String>())),
                    ("nomir", format!("{}", is_item)),
                ]));
                continue;
            }
            let generic = tcx.instance_mir(inst.def);
            let body: Body<'tcx> =
                inst.instantiate_mir_and_normalize_erasing_regions(tcx, env, EarlyBinder::bind(generic.clone()));
            self.cur.set(id);
            if interesting.iter().any(|c| *c == cname) {
                let mut j = self.body_of(&label, did, &body, None);
                j.pop();
                j.push_str(&format!(
                    ",{}:{},{}:{},{}:{}}}",
                    esc("id"), id, esc("parent"), parent_s, esc("generic_path"), esc(&tcx.def_path_str(did))
                ));
                bodies.push(j);
            } else {
                // still walk callees so that reachability covers every crate, but do not dump the body
                let mut panics = 0usize;
                for bb in body.basic_blocks.iter() {
                    if let Some(t) = &bb.terminator {
                        match &t.kind {
                            TerminatorKind::Call { func, args, .. } => {
                                let fty = func.ty(&body.local_decls, tcx);
                                if let ty::FnDef(cd, gargs) = fty.kind() {
                                    let _ = self.resolved(*cd, gargs, id);
                                }
                                for a in args.iter() {
                                    if let Operand::Constant(c) = &a.node {
                                        if let ty::FnDef(cd, gargs) = c.const_.ty().kind() {
                                            let _ = self.resolved(*cd, gargs, id);
                                        }
                                    }
                                }
                            }
                            TerminatorKind::Assert { .. } => panics += 1,
                            _ => {}
                        }
                    }
                    for st in &bb.statements {
                        if let StatementKind::Assign(b) = &st.kind {
                            match &b.1 {
                                Rvalue::Aggregate(k, ops) => {
                                    if let AggregateKind::Closure(cd, cargs) = &**k {
                                        let ci = Instance::new_raw(*cd, cargs);
                                        let _ = self.describe_instance(m, ci, id);
                                    }
                                    for o in ops.iter() {
                                        if let Operand::Constant(c) = o {
                                            if let ty::FnDef(cd, gargs) = c.const_.ty().kind() {
                                                let _ = self.resolved(*cd, gargs, id);
                                            }
                                        }
                                    }
                                }
                                Rvalue::Use(Operand::Constant(c), _) | Rvalue::Cast(_, Operand::Constant(c), _) => {
                                    if let ty::FnDef(cd, gargs) = c.const_.ty().kind() {
                                        let _ = self.resolved(*cd, gargs, id);
                                    }
                                }
                                _ => {}
                            }
                        }
                    }
                }
                leaves.push(obj(&[
                    ("id", format!("{}", id)),
                    ("inst", esc(&label)),
                    ("dpath", esc(&self.dpath(did))),
                    ("crate", esc(&cname)),
                    ("parent", parent_s),
                    ("kind", esc("Item")),
                    ("asserts", format!("{}", panics)),
                ]));
            }
        }
        (bodies, leaves)
    }
}

// ---- typenum compression: `UInt<UInt<UTerm, B1>, B0>` -> `U2` (applied to the final JSON text) ----
fn is_ident_char(c: u8) -> bool {
    c.is_ascii_alphanumeric() || c == b'_'
}
fn end_of_path(s: &str, mut i: usize) -> usize {
    let b = s.as_bytes();
    loop {
        while i < b.len() && is_ident_char(b[i]) {
            i += 1;
        }
        if i + 2 < b.len() && b[i] == b':' && b[i + 1] == b':' && is_ident_char(b[i + 2]) {
            i += 2;
            continue;
        }
        return i;
    }
}
fn parse_tn(s: &str, i: usize) -> Option<(u64, usize)> {
    let j = end_of_path(s, i);
    let tok = &s[i..j];
    let last = tok.rsplit("::").next()?;
    if last == "UTerm" {
        return Some((0, j));
    }
    if last == "UInt" && s[j..].starts_with('<') {
        let (v, k) = parse_tn(s, j + 1)?;
        if !s[k..].starts_with(", ") {
            return None;
        }
        let k2 = k + 2;
        let e = end_of_path(s, k2);
        let bit = match s[k2..e].rsplit("::").next()? {
            "B0" => 0,
            "B1" => 1,
            _ => return None,
        };
        if !s[e..].starts_with('>') {
            return None;
        }
        return Some((v * 2 + bit, e + 1));
    }
    None
}
fn compress_typenum(s: &str) -> String {
    let b = s.as_bytes();
    let mut out = String::with_capacity(s.len() / 2);
    let mut i = 0;
    let mut last = 0;
    while i < b.len() {
        if is_ident_char(b[i]) && (i == 0 || !is_ident_char(b[i - 1])) {
            if let Some((v, j)) = parse_tn(s, i) {
                out.push_str(&s[last..i]);
                out.push_str(&format!("U{}", v));
                i = j;
                last = j;
                continue;
            }
            let j = end_of_path(s, i);
            i = if j > i { j } else { i + 1 };
            continue;
        }
        i += 1;
    }
    out.push_str(&s[last..]);
    out
}

struct Cb;
impl rustc_driver::Callbacks for Cb {
    fn after_analysis<'tcx>(&mut self, _c: &rustc_interface::interface::Compiler, tcx: TyCtxt<'tcx>) -> Compilation {
        let want = std::env::var("OPQ_CRATE").unwrap_or_else(|_| "opaque_ke".into());
        let krate = tcx.crate_name(rustc_span::def_id::LOCAL_CRATE).to_string();
        if krate != want {
            return Compilation::Continue;
        }
        let mode = std::env::var("OPQ_MODE").unwrap_or_else(|_| "G".into());
        let outdir = std::env::var("OPQ_OUT_DIR").expect("OPQ_OUT_DIR");
        if mode == "M" {
            // roots are `root_<suite>__<what>`; one fact file per suite
            let wanted = std::env::var("OPQ_SUITES").unwrap_or_else(|_| "all".into());
            let mut by_suite: std::collections::BTreeMap<String, Vec<DefId>> = Default::default();
            for ldid in tcx.mir_keys(()) {
                let did = ldid.to_def_id();
                if matches!(tcx.def_kind(did), DefKind::Fn) {
                    let name = tcx.item_name(did).to_string();
                    if let Some(rest) = name.strip_prefix("root_") {
                        if let Some((suite, what)) = rest.split_once("__") {
                            let suite = if what.starts_with("remote") { format!("{}-remote", suite) } else { suite.to_string() };
                            by_suite.entry(suite).or_default().push(did);
                        }
                    }
                }
            }
            let mut written = Vec::new();
            for (suite, roots) in by_suite.iter() {
                if wanted != "all" && !wanted.split(',').any(|w| w == suite) {
                    continue;
                }
                let cx = Cx {
                    tcx,
                    mono: Some(std::cell::RefCell::new(Mono { ids: Default::default(), queue: Default::default(), types: Default::default() })),
                    cur: std::cell::Cell::new(usize::MAX),
                };
                let (bodies, leaves) = cx.mono(roots, &["opaque_ke", "voprf", &krate]);
                let types: Vec<String> = cx
                    .mono
                    .as_ref()
                    .unwrap()
                    .borrow()
                    .types
                    .iter()
                    .map(|(k, v)| format!("{}:{}", esc(k), if v.is_empty() { "null".to_string() } else { v.clone() }))
                    .collect();
                let out = obj(&[
                    ("types", format!("{{{}}}", types.join(","))),
                    ("crate", esc(&krate)),
                    ("mode", esc("M")),
                    ("suite", esc(suite)),
                    ("bodies", arr(&bodies)),
                    ("leaves", arr(&leaves)),
                ]);
                let path = format!("{}/m-{}.json", outdir, suite);
                std::fs::write(&path, compress_typenum(&out)).unwrap();
                written.push(format!("{}:{}+{}", suite, bodies.len(), leaves.len()));
            }
            std::fs::write(format!("{}/m-DONE", outdir), written.join("\n")).unwrap();
            eprintln!("OPQ(M) wrote {}", written.join(" "));
            return Compilation::Continue;
        }
        let cx = Cx { tcx, mono: None, cur: std::cell::Cell::new(usize::MAX) };
        let mut bodies = Vec::new();
        for ldid in tcx.mir_keys(()) {
            let did = ldid.to_def_id();
            if !matches!(tcx.def_kind(did), DefKind::Fn | DefKind::AssocFn | DefKind::Closure) {
                continue;
            }
            bodies.extend(cx.body(did));
        }
        // impl table
        let mut impls = Vec::new();
        for ldid in tcx.hir_crate_items(()).definitions() {
            let did = ldid.to_def_id();
            if let DefKind::Impl { .. } = tcx.def_kind(did) {
                let self_ty = tcx.type_of(did).instantiate_identity().skip_norm_wip();
                let tr = tcx.impl_opt_trait_ref(did).map(|t| t.instantiate_identity().skip_norm_wip());
                let mut assoc = Vec::new();
                for item in tcx.associated_items(did).in_definition_order() {
                    if item.is_type() {
                        assoc.push(arr(&[esc(item.name().as_str()), cx.ty(tcx.type_of(item.def_id).instantiate_identity().skip_norm_wip())]));
                    }
                }
                impls.push(obj(&[
                    ("self_ty", cx.ty(self_ty)),
                    ("trait", esc(&tr.map(|t| format!("{}", t)).unwrap_or_default())),
                    ("trait_dpath", esc(&tr.map(|t| cx.dpath(t.def_id)).unwrap_or_default())),
                    ("assoc_types", arr(&assoc)),
                ]));
            }
        }
        // ADTs
        let mut adts = Vec::new();
        for ldid in tcx.hir_crate_items(()).definitions() {
            let did = ldid.to_def_id();
            if matches!(tcx.def_kind(did), DefKind::Struct | DefKind::Enum) {
                let adt = tcx.adt_def(did);
                let vs: Vec<String> = adt
                    .variants()
                    .iter()
                    .map(|v| {
                        let fs: Vec<String> = v
                            .fields
                            .iter()
                            .map(|f| {
                                obj(&[
                                    ("name", esc(f.name.as_str())),
                                    ("ty", cx.ty(tcx.type_of(f.did).instantiate_identity().skip_norm_wip())),
                                    ("vis", esc(&format!("{:?}", f.vis))),
                                ])
                            })
                            .collect();
                        obj(&[("name", esc(v.name.as_str())), ("fields", arr(&fs))])
                    })
                    .collect();
                adts.push(obj(&[("path", esc(&tcx.def_path_str(did))), ("dpath", esc(&cx.dpath(did))), ("vis", esc(&format!("{:?}", tcx.visibility(did)))), ("variants", arr(&vs))]));
            }
        }
        // statics, unsafe code, crate features, field attributes
        let mut statics = Vec::new();
        let mut unsafes = Vec::new();
        let mut attrs = Vec::new();
        let penv = TypingEnv::fully_monomorphized();
        for ldid in tcx.hir_crate_items(()).definitions() {
            let did = ldid.to_def_id();
            match tcx.def_kind(did) {
                DefKind::Static { mutability, nested, .. } => {
                    let t = tcx.type_of(did).instantiate_identity().skip_norm_wip();
                    statics.push(obj(&[
                        ("path", esc(&tcx.def_path_str(did))),
                        ("mutable", format!("{}", mutability.is_mut())),
                        ("nested", format!("{}", nested)),
                        ("ty", cx.ty(t)),
                        ("freeze", format!("{}", t.is_freeze(tcx, penv))),
                        ("thread_local", format!("{}", tcx.is_thread_local_static(did))),
                        ("span", cx.span(tcx.def_span(did))),
                    ]));
                }
                DefKind::Fn | DefKind::AssocFn => {
                    if tcx.fn_sig(did).skip_binder().safety().is_unsafe() {
                        unsafes.push(obj(&[("kind", esc("unsafe fn")), ("path", esc(&tcx.def_path_str(did))), ("span", cx.span(tcx.def_span(did)))]));
                    }
                }
                DefKind::Impl { of_trait: true } => {
                    if tcx.impl_trait_header(did).safety.is_unsafe() && !tcx.def_span(did).from_expansion() {
                        unsafes.push(obj(&[("kind", esc("unsafe impl")), ("path", esc(&tcx.def_path_str(did))), ("span", cx.span(tcx.def_span(did)))]));
                    }
                }
                _ => {}
            }
        }
        {
            use rustc_hir::intravisit::{self, Visitor};
            struct V<'a, 'tcx> {
                cx: &'a Cx<'tcx>,
                out: &'a mut Vec<String>,
                owner: String,
            }
            impl<'a, 'tcx> Visitor<'tcx> for V<'a, 'tcx> {
                fn visit_block(&mut self, b: &'tcx rustc_hir::Block<'tcx>) {
                    if let rustc_hir::BlockCheckMode::UnsafeBlock(rustc_hir::UnsafeSource::UserProvided) = b.rules {
                        if !b.span.from_expansion() {
                            self.out.push(obj(&[("kind", esc("unsafe block")), ("path", esc(&self.owner)), ("span", self.cx.span(b.span))]));
                        }
                    }
                    intravisit::walk_block(self, b);
                }
            }
            for owner in tcx.hir_body_owners() {
                let body = tcx.hir_body_owned_by(owner);
                let mut v = V { cx: &cx, out: &mut unsafes, owner: tcx.def_path_str(owner.to_def_id()) };
                v.visit_body(body);
            }
        }
        for ldid in tcx.hir_crate_items(()).definitions() {
            let did = ldid.to_def_id();
            if matches!(tcx.def_kind(did), DefKind::Field | DefKind::Struct | DefKind::Enum | DefKind::Variant) {
                for a in tcx.get_all_attrs(did) {
                    let s = format!("{:?}", a);
                    if s.contains("serde") {
                        attrs.push(obj(&[("item", esc(&tcx.def_path_str(did))), ("kind", esc(&format!("{:?}", tcx.def_kind(did)))), ("attr", esc(&s.chars().take(400).collect::<String>()))]));
                    }
                }
            }
        }
        let features: Vec<String> = tcx.features().enabled_features().iter().map(|f| esc(f.as_str())).collect();
        let out = obj(&[
            ("crate", esc(&krate)),
            ("mode", esc("G")),
            ("bodies", arr(&bodies)),
            ("adts", arr(&adts)),
            ("impls", arr(&impls)),
            ("statics", arr(&statics)),
            ("unsafes", arr(&unsafes)),
            ("serde_attrs", arr(&attrs)),
            ("features", arr(&features)),
        ]);
        let path = format!("{}/g-{}.json", outdir, std::env::var("OPQ_TAG").unwrap_or_else(|_| "all".into()));
        std::fs::write(&path, compress_typenum(&out)).unwrap();
        let mut s = String::new();
        let _ = write!(s, "OPQ wrote {} bodies={} adts={}", path, bodies.len(), adts.len());
        eprintln!("{}", s);
        Compilation::Continue
    }
}

fn main() {
    let mut args: Vec<String> = std::env::args().collect();
    if args.len() > 1 && args[1].ends_with("rustc") {
        args.remove(1);
    }
    rustc_driver::run_compiler(&args, &mut Cb);
}
